"""C12 -- single-use return values are moved out at most once and never duplicated."""
import collections, json, random, time
from .. import common as C
from .. import cases as K
from .. import layer_b as B
from .. import rustc_sweep as R
from ..layer_a import Engine, proj_kinds
from ..runner import canon

MODULE = "Props.C12"
THEOREMS = ["C12_single_use_delivered_at_most_once", "C12_single_use_value_has_one_owner", "C12_raced_value_is_not_lost",
            "C12_exactly_one_receiver", "C12_receiving_step_returns_the_value", "C12_answered_request_runs_no_debug", "C12_receiver_nonvacuous",
            "C12_slot_request", "C12_sequential",
            "C12_repeat_use_never_single_use", "C12_builder_refuses_multi_use_of_non_clone",
            "C12_non_clone_stored_single_use", "C12_nonvacuous"]

RULE = ("four parts. (composite) return types with owned leaves inside Option/Result/Vec/Poll/tuples next to borrowed parts (the C17 grammar, own crate): "
        "every value requested 3x through the single-use path, once through next_call, 3x through each_call and through n_times(3), compared with the model "
        "(a taken owned leaf makes later single-use requests fail, repeated-use requests always deliver). (races) 2-4 threads x 1-2 requests for one or two single-use values (some_call/next_call .returns(v), .once(), also behind a "
        "then()), on the real runtime under the controlled scheduler: ALL interleavings for 2 and 3 threads x 1 request, random ones beyond; compared with "
        "the Layer B model on trace, who receives the value, who panics, verdict. (histories) sequential histories of 0-6 requests through original and "
        "clones with the numbers of live instrumented values (constructed - dropped, Clone and non-Clone type) observed after every step and after the "
        "last instance is gone: a taken value leaves the mock, a repeat-use value stays until teardown, nothing is dropped twice or leaked. (type level) "
        "for every type state of the builder x every builder method x {Clone, non-Clone output} x {some_call, each_call, next_call}: the model's "
        "well-typedness = rustc's verdict on the real crate, and likewise 'is a Clause'. distinct = canonical JSON; non-trivial = a single-use value is "
        "requested at least twice (races: by at least two threads)")


# ---------------------------------------------------------------- races
def race_case(rng, nth, nreq):
    mid = rng.choice([4, 5, 0, 9, 9])      # 9: a composite value, two single-use slots
    form = rng.choice(["some", "some_once", "next", "then", "each", "each_n"])
    if form in ("each", "each_n"):
        # a REPEATABLE value (the stored original is cloned per request): concurrent requests must all be served
        mid = 0
        terms = [{"kind": "call", "mid": mid, "opener": "each", "pat": {"matcher": 255, "dbg": 1, "ops": [("ret", 7)] + ([("n", 3)] if form == "each_n" else [])}}]
    elif form == "some":
        terms = [{"kind": "call", "mid": mid, "opener": "some", "pat": {"matcher": 255, "dbg": 1, "ops": [("ret", 7)]}}]
    elif form == "some_once":
        terms = [{"kind": "call", "mid": mid, "opener": "some", "pat": {"matcher": 255, "dbg": 1, "ops": [("ret", 7), ("once",)]}}]
    elif form == "next":
        terms = [{"kind": "call", "mid": mid, "opener": "next", "pat": {"matcher": 255, "dbg": 1, "ops": [("ret", 7)]}}]
    else:
        terms = [{"kind": "call", "mid": mid, "opener": "some", "pat": {"matcher": 255, "dbg": 1,
                  "ops": [("ret", 7), ("once",), ("then",), ("ans", 8)]}}]
    if rng.random() < 0.3:
        other = 5 if mid != 5 else 4
        terms.append({"kind": "call", "mid": other, "opener": "some", "pat": {"matcher": 255, "dbg": 2, "ops": [("ret", 9)]}})
    mids = [t["mid"] for t in terms]
    threads = [[(rng.choice(mids), rng.randrange(8)) for _ in range(nreq)] for _ in range(nth)]
    return {"partial": False, "terms": terms, "threads": threads, "sched": []}


def race_cases(rng, tier, eng):
    out = []
    small = [race_case(rng, 2, 1) for _ in range(8)] + [race_case(rng, 3, 1) for _ in range(3 if tier == "quick" else 10)]
    if tier == "thorough":
        small += [race_case(rng, 2, 2) for _ in range(6)]
    base = eng.model(small)
    from .C10 import op_counts
    for c, obs in zip(small, base):
        # two spare steps per thread: interleavings of operations the model does not have are explored too
        scheds = list(B.all_schedules([min(n + 2, 6) for n in op_counts(obs, len(c["threads"]))]))
        if len(scheds) > 300:
            scheds = rng.sample(scheds, 300)
        for s in scheds:
            c2 = dict(c); c2["sched"] = s; c2["_exh"] = True
            out.append(c2)
    for _ in range(80 if tier == "quick" else 800):
        c = race_case(rng, rng.randint(2, 4), rng.randint(1, 2))
        tot = sum(5 * len(t) for t in c["threads"])
        c["sched"] = [rng.randrange(len(c["threads"])) for _ in range(rng.randint(0, tot))]
        out.append(c)
    return out


# ---------------------------------------------------------------- histories with live counters
def history_case(rng):
    mids = rng.sample([0, 1, 4, 5], rng.randint(1, 3))
    g = K.Gen(rng, mids=mids, n_terms=(1, 4), max_count=2, max_segments=3, nomatcher_frac=0.0, stub_frac=0.2,
              resp_weights=dict(ret=70, retd=5, ans=15, pan=5, unm=5), full_mask_frac=0.7)
    terms = g.terms()
    evs = [{"base": ("live",)}, {"base": ("clone", 0)}, {"base": ("live",)}]
    for _ in range(rng.randint(0, 6)):
        evs.append({"base": ("call", rng.randrange(2), rng.choice(mids), rng.randrange(8))})
        evs.append({"base": ("live",)})
    evs += [{"base": ("drop", 1)}, {"base": ("live",)}, {"base": (rng.choice(["drop", "verify", "report"]), 0)}, {"base": ("live",)}]
    return {"partial": rng.random() < 0.2, "terms": terms, "events": evs}


def directed_histories():
    """a single-use value of an ORDERED pattern requested again, on a method that has a real function, in strict and partial mocks,
    through the original and a clone: the second request is an error (the ordered sequence is exhausted), never a value from elsewhere"""
    out = []
    for partial in (False, True):
        for mid in (4, 0):                  # both have a registered real function; m4 returns the non-Clone type
            for opener, ops in (("next", [("ret", 7)]), ("next", [("ret", 7), ("once",)]), ("some", [("ret", 7)]), ("some", [("ret", 7), ("once",)])):
                for via in (0, 1):
                    terms = [{"kind": "call", "mid": mid, "opener": opener, "pat": {"matcher": 255, "dbg": 1, "ops": ops}}]
                    evs = [{"base": ("clone", 0)}, {"base": ("call", 0, mid, 1)}, {"base": ("live",)}, {"base": ("call", via, mid, 2)}, {"base": ("live",)},
                           {"base": ("call", 0, mid, 3)}, {"base": ("drop", 1)}, {"base": ("verify", 0)}, {"base": ("live",)}]
                    out.append({"partial": partial, "terms": terms, "events": evs})
    return out


def single_use_requested_twice(case):
    n = collections.Counter(e["base"][2] for e in case["events"] if e["base"][0] == "call")
    for t in case["terms"]:
        pats = [t["pat"]] if t["kind"] == "call" else t["pats"]
        for p in pats:
            ops = p["ops"]
            if ops and ops[0][0] == "ret" and (len(ops) == 1 or ops[1][0] == "once") and t["kind"] == "call" and t["opener"] != "each" and n[t["mid"]] >= 2:
                return True
    return False


# ---------------------------------------------------------------- composite returns (machinery of C17, own crate)
def has_owned_under_container(t):
    def owned(t):
        return t[0] == "own" or (t[0] not in ("ref",) and any(owned(x) for x in t[1:] if isinstance(x, tuple)) or
                                 (t[0] == "tup" and any(owned(x) for x in t[1])))
    return t[0] not in ("own", "ref") and owned(t)


def composite_part(rng, tier, crate="outputs12", limit=None):
    """owned leaves inside Option/Result/Vec/Poll/tuples: single-use vs repeated-use requests.
    returns (number of cases, list of (type, value tokens, model lines, impl lines))"""
    import os, shutil
    from . import C17
    src = os.path.join(C.VERIF, "harness", "outputs")
    dst = os.path.join(C.VERIF, "harness", crate)
    os.makedirs(os.path.join(dst, "src"), exist_ok=True)
    for f in ("main.rs", "obs.rs"):
        a, b = os.path.join(src, "src", f), os.path.join(dst, "src", f)
        if not os.path.exists(b) or open(a).read() != open(b).read():
            shutil.copy(a, b)
    tin = open(os.path.join(src, "Cargo.toml.in")).read().replace('name = "voutputs"', f'name = "v{crate}"')
    if not os.path.exists(os.path.join(dst, "Cargo.toml.in")) or open(os.path.join(dst, "Cargo.toml.in")).read() != tin:
        open(os.path.join(dst, "Cargo.toml.in"), "w").write(tin)
    old = C17.HARNESS
    C17.HARNESS = crate
    try:
        types = [t for t in C17.gen_types(rng, "quick" if tier == "quick" else "thorough") if has_owned_under_container(t)]
        infos = [i for i in C17.analyse_types(types) if i["kind"].split("<")[0] in ("Deep", "Shallow") or not i["accept"]]
        fam = {C17.rust_ty(t) for t in C17.depth2_family()}
        infos.sort(key=lambda i: (i["rust"] not in fam, -C17.depth(i["ty"])))       # the systematic depth-2 family first, then the deepest
        infos = infos[:limit or (90 if tier == "quick" else 300)]
        binary, acc, mism = C17.build_accepted(infos)
        cases = []
        for k, inf in enumerate(acc):
            it = C17.parse_in(inf["in"])
            for v in C17.values_for(rng, it, tier)[:10]:
                cases.append({"k": k, "v": v})
        impl, model = C17.run_cases(binary, acc, cases)
        bad = []
        for n, c in enumerate(cases):
            if C17.strip_obs(impl[n]) != C17.strip_obs(model[n]):
                bad.append({"rust_return_type": acc[c["k"]]["rust"], "output_kind": acc[c["k"]]["kind"], "returns_input_type": acc[c["k"]]["in"],
                            "type": acc[c["k"]]["ty"], "value": c["v"], "value_tokens": " ".join(C17.tokens(c["v"])),
                            "expected_by_model": C17.strip_obs(model[n]), "observed_on_implementation": C17.strip_obs(impl[n])})
        return len(cases), len(acc), bad
    finally:
        C17.HARNESS = old


def run(tier, seed):
    t0 = time.time()
    rng = random.Random(seed)
    obligations = C.proof_obligations("C12", MODULE, THEOREMS)
    # (type level)
    progs, mv, rv = R.sweep()
    type_bad = [k for k in range(len(progs)) if mv[k] != rv[k]]
    # (races)
    eng = B.SchedEngine(); eng.build()
    races = race_cases(rng, tier, eng)
    ri, rm = eng.both(races)
    race_bad = [i for i in range(len(races)) if B.project(ri[i]) != B.project(rm[i])]
    race_res_bad = [i for i in race_bad if B.results_only(B.project(ri[i])) != B.results_only(B.project(rm[i]))]
    # (histories)
    heng = Engine("C12", project=proj_kinds); heng.build()
    hist = directed_histories() + [history_case(rng) for _ in range(400 if tier == "quick" else 4000)]
    hbad, hi, hm = heng.disagreements(hist)
    nt = sum(1 for c in {canon(c): c for c in hist}.values() if single_use_requested_twice(c))
    nt += sum(1 for c in {canon({k: v for k, v in c.items() if not k.startswith('_')}): c for c in races}.values()
              if len({t for th in c["threads"] for t in th and [th[0][0]]}) >= 1 and len(c["threads"]) >= 2)
    # (composite)
    n_comp, n_comp_types, comp_bad = composite_part(rng, tier)
    n_ok = sum(1 for k in range(len(progs)) if rv[k])
    cov = {
        "obligations": len(obligations) + 4,
        "discharged": len(obligations) + (0 if type_bad else 1) + (0 if race_bad else 1) + (0 if hbad else 1) + (0 if comp_bad else 1),
        "checker_cmd": f"make -C /verif/coq ; ./check C12 --tier {tier}",
        "trusted_base": C.TRUSTED_BASE + ["rustc's trait resolution decides the must-not-compile programs; sequentially consistent scheduler"],
        "theorems": obligations,
        "correspondence_obligation": "races: trace/outcomes/verdict = Layer B model on the same schedule; histories: outcomes and live-value counts = Layer A model; "
                                     "type level: model well-typedness = rustc verdict",
        "evaluations": len(races) + len(hist) + len(progs) + n_comp, "distinct_nontrivial": nt, "rule": RULE,
        "samples": [B.harness_line(races[0], "sample"), K.harness_line(hist[0], "sample"), R.describe(progs[5])],
        "distribution": {"race programs x schedules": len(races), "races with all interleavings": sum(1 for c in races if c.get("_exh")),
                         "histories": len(hist), "composite return types": n_comp_types, "composite values requested": n_comp,
                         "builder programs": len(progs), "builder programs rustc accepts": n_ok,
                         "builder programs rustc rejects": len(progs) - n_ok},
    }
    def fail(payload, no_input=False):
        path = C.write_replay("C12", seed, payload)
        C.write_evidence("C12", tier, seed, cov, time.time() - t0, 1)
        C.violation("C12", path, no_input=no_input)
        return 1
    if comp_bad:
        b = min(comp_bad, key=lambda x: (len(x["rust_return_type"]), len(x["value_tokens"])))
        b.update({"property": "C12", "seed": seed, "part": "composite",
                  "theorem_or_correspondence": "correspondence C12 (owned leaves inside composite returns: single-use vs repeated-use requests; model Macro/Output.v, theorems C17_single_use / C17_multi_use)",
                  "reading": "S<i>: i-th request after some_call().returns(v); O1: next_call().returns(v); M<i>: each_call().returns(v); T<i>: some_call().returns(v).n_times(3); `P once` = cannot return value more than once",
                  "disagreeing_cases_in_run": len(comp_bad)})
        return fail(b)
    if hbad:
        i = hbad[0][0]
        small = heng.shrink(hist[i])
        payload = heng.replay_payload(small, seed, "correspondence C12 (histories with live-value counts)")
        payload["part"] = "history"
        return fail(payload)
    if race_bad:
        i = (race_res_bad or race_bad)[0]
        return fail({"property": "C12", "seed": seed, "part": "race",
                     "theorem_or_correspondence": "correspondence C12 (single-use races under the controlled scheduler)"
                     + ("" if race_res_bad else ": only the trace differs"),
                     "case": {k: v for k, v in races[i].items() if not k.startswith("_")},
                     "harness_line": B.harness_line(races[i], "replay"), "expected_by_model": rm[i], "observed_on_implementation": ri[i]},
                    no_input=not race_res_bad)
    if type_bad:
        k = type_bad[0]
        return fail({"property": "C12", "seed": seed, "part": "types",
                     "theorem_or_correspondence": "type-state correspondence: Model/Builder.v bstep/build_call vs rustc",
                     "program": R.describe(progs[k]), "model_says_well_typed": mv[k], "rustc_accepts": rv[k],
                     "case": {"program_index": k, "prog": progs[k]}, "disagreements": len(type_bad)})
    # user code on the way of a value: a request that is answered runs none of the arguments' Debug impls (C12_answered_request_runs_no_debug);
    # the harness method DB::db takes an argument whose Debug impl counts its runs
    from ..trace_part import TracePart
    tn, tpayload, tcov = TracePart("C12", n_quick=120, n_thorough=1200)(rng, tier, seed, [])
    cov.update(tcov)
    cov["obligations"] += 1
    cov["evaluations"] += tn
    if tpayload is not None:
        return fail(tpayload)
    cov["discharged"] += 1
    C.write_evidence("C12", tier, seed, cov, time.time() - t0, 0,
                     assumptions=["model/implementation agreement on the generated programs, schedules and histories only"])
    print(f"C12: {len(obligations)} theorems closed; {len(races)} scheduled races, {len(hist)} histories, {n_comp} composite requests, {len(progs)} builder programs agree ({time.time()-t0:.1f}s)")
    return 0


def replay_composite(prop, payload, path, crate):
    from . import C17
    old = C17.HARNESS
    C17.HARNESS = crate
    try:
        def tup(x):
            return tuple(tup(y) for y in x) if isinstance(x, list) and x and isinstance(x[0], str) else ([tup(y) for y in x] if isinstance(x, list) else x)
        infos = C17.analyse_types([tup(payload["type"])])
        binary, acc, mism = C17.build_accepted(infos)
        impl, model = C17.run_cases(binary, acc, [{"k": 0, "v": tup(payload["value"])}])
    finally:
        C17.HARNESS = old
    print("model:", C17.strip_obs(model[0])); print("impl :", C17.strip_obs(impl[0]))
    if C17.strip_obs(impl[0]) != C17.strip_obs(model[0]):
        C.violation(prop, path); return 1
    print("agree")
    return 0


def replay(path):
    payload = json.load(open(path))
    if payload.get("part") == "trace":
        from ..trace_part import replay_trace
        return replay_trace("C12", payload, path)
    part = payload.get("part")
    if part == "history":
        heng = Engine("C12", project=proj_kinds); heng.build()
        impl, model = heng.both([payload["case"]])
        print("model:", model[0]); print("impl :", impl[0])
        if proj_kinds(payload["case"], impl[0]) != proj_kinds(payload["case"], model[0]):
            C.violation("C12", path); return 1
    elif part == "race":
        eng = B.SchedEngine(); eng.build()
        impl, model = eng.both([payload["case"]])
        print("model:", model[0]); print("impl :", impl[0])
        if B.project(impl[0]) != B.project(model[0]):
            C.violation("C12", path); return 1
    elif part == "composite":
        return replay_composite("C12", payload, path, "outputs12")
    elif part == "composite-old":
        import os
        from . import C17
        old = C17.HARNESS
        C17.HARNESS = "outputs12"
        try:
            infos = C17.analyse_types([json.loads(json.dumps(payload["type"]), object_hook=None)])
            def tup(x):
                return tuple(tup(y) for y in x) if isinstance(x, list) and x and isinstance(x[0], str) else ([tup(y) for y in x] if isinstance(x, list) else x)
            infos = C17.analyse_types([tup(payload["type"])])
            binary, acc, mism = C17.build_accepted(infos)
            impl, model = C17.run_cases(binary, acc, [{"k": 0, "v": payload["value"]}])
        finally:
            C17.HARNESS = old
        print("model:", C17.strip_obs(model[0])); print("impl :", C17.strip_obs(impl[0]))
        if C17.strip_obs(impl[0]) != C17.strip_obs(model[0]):
            C.violation("C12", path); return 1
    elif part == "types":
        prog = tuple(payload["case"]["prog"])
        prog = (prog[0], prog[1], list(prog[2]), prog[3])
        mv, rv = R.model_verdicts([prog]), R.rustc_verdicts([prog])
        print("program:", R.describe(prog), "model:", mv[0], "rustc:", rv[0])
        if mv[0] != rv[0]:
            C.violation("C12", path); return 1
    else:
        print("replay file names an obligation:", payload.get("theorem_or_correspondence")); return 1
    print("agree")
    return 0

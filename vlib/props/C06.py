"""C06 -- matching! accepts exactly what the equivalent Rust match would accept.

Inputs are GENERATED RUST PROGRAMS: every case is one `matching!(...)` invocation on a
mocked trait method, compiled with the real macro, evaluated over its whole finite
argument domain unordered (each_call: diagnostics off) and ordered (next_call:
diagnostics on), next to a literal Rust `match` on the same arguments with the same
patterns / guard / == / != (the oracle on the implementation side is rustc).  The same
surface input is run through the Coq model (frontend -> generate -> run) and the spec."""
import collections, json, os, random, re, time
from .. import common as C

MODULE = "Props.C06"
THEOREMS = ["C06_accepts_iff_rust_match", "C06_diagnostics_independent", "C06_empty_accepts_everything",
            "C06_f3_repaired", "C06_guard_join", "C06_packing", "C06_coercion_is_view", "C06_locals_distinct",
            "C06_frontend", "C06_ne_is_user_code", "C06_nonvacuous", "Runtime.C06_runtime_consults_like_a_match", "Runtime.C06_diagnostics_only_after_the_decision",
            "Runtime.C06_ordered_call_consults_one_matcher", "Runtime.C06_trace_nonvacuous"]
HARNESS = "matching"
F3_ID = "F3"

RULE = ("one case = one real matching!(...) invocation, rendered into harness/matching/src/gen.rs and compiled with the real macro "
        "on every run, evaluated over the WHOLE product of its argument domains (<= 4^4 tuples) three ways in the same program: "
        "unordered (each_call, reporter disabled), ordered (next_call on a fresh mock per tuple, reporter enabled), and a literal "
        "Rust `match` on a tuple of the same arguments with the same patterns, the guard in parentheses and ==/!= for eq!/ne! "
        "(string/slice arguments seen through AsRef).  The Coq side runs frontend+generate+run (both reporter states) and "
        "Spec.RustMatch.rust_match on the same surface input and domain.  Deciding comparison: implementation bits vs rustc's "
        "match bits; model bits vs implementation bits; spec bits vs rustc's bits.  distinct = canonical JSON of the surface "
        "input + signature; non-trivial = accepts some but not all tuples AND has at least one of: guard, eq!/ne!, two "
        "alternatives, string/slice literal, or-pattern")

# ---------------------------------------------------------------- value universe (mirrors harness/matching/src/types.rs)
INTS = [-1, 3, 4, 7]
STRS = ["", "ab", "abc", "b"]
SEQS = [[], [3], [3, 7], [7, 3, 3]]


def vint(z): return ("int", z)
def vbool(b): return ("bool", b)
def vstr(w, s): return ("str", w, s)
def vseq(w, l): return ("seq", w, [vint(x) for x in l])
def vctor(c, fs): return ("ctor", c, fs)
def vtup(fs): return ("tup", fs)


TYPES = {
    # name: (trait param type, ref-fn param type, domain fn, call expr, domain values)
    "int": ("i32", "&i32", "dom_int", "*{a}", [vint(z) for z in INTS]),
    "bool": ("bool", "&bool", "dom_bool", "*{a}", [vbool(False), vbool(True)]),
    "opt": ("Option<i32>", "&Option<i32>", "dom_opt", "*{a}", [vctor("None", [])] + [vctor("Some", [vint(z)]) for z in (-1, 3, 7)]),
    "enum": ("E", "&E", "dom_enum", "{a}.clone()",
             [vctor("A", []), vctor("B", [vint(3)]), vctor("B", [vint(7)]), vctor("C", [vint(3), vbool(True)])]),
    "struct": ("S", "&S", "dom_struct", "{a}.clone()",
               [vctor("S", [vint(3), vbool(False)]), vctor("S", [vint(3), vbool(True)]), vctor("S", [vint(7), vbool(False)]),
                vctor("S", [vint(-1), vbool(True)])]),
    "pair": ("(i32, bool)", "&(i32, bool)", "dom_pair", "*{a}",
             [vtup([vint(3), vbool(False)]), vtup([vint(3), vbool(True)]), vtup([vint(7), vbool(True)])]),
    "str": ("&str", "&&'static str", "dom_str", "*{a}", [vstr("Plain", s) for s in STRS]),
    "string": ("String", "&String", "dom_string", "{a}.clone()", [vstr("Owned", s) for s in STRS]),
    "ns": ("NS", "&NS", "dom_ns", "{a}.clone()", [vstr("Newtype", s) for s in STRS]),
    "slice": ("&[i32]", "&&'static [i32]", "dom_slice", "*{a}", [vseq("Plain", l) for l in SEQS]),
    "vec": ("Vec<i32>", "&Vec<i32>", "dom_vec", "{a}.clone()", [vseq("Owned", l) for l in SEQS]),
    "nv": ("NV", "&NV", "dom_nv", "{a}.clone()", [vseq("Newtype", l) for l in SEQS]),
}
STRLIKE = ("str", "string", "ns")
SEQLIKE = ("slice", "vec", "nv")
FIELDS = {"C": ["x", "y"], "S": ["a", "b"]}


# ---------------------------------------------------------------- rendering: Coq
def cz(z): return f"({z})%Z"
def cstr(s): return '"' + s.replace('"', '""') + '"'
def cbool(b): return "true" if b else "false"
def clist(xs): return "[" + "; ".join(xs) + "]"
def copt(x): return "None" if x is None else f"(Some {x})"


def coq_value(v):
    k = v[0]
    if k == "int": return f"(VInt {cz(v[1])})"
    if k == "bool": return f"(VBool {cbool(v[1])})"
    if k == "str": return f"(VStr {v[1]} {cstr(v[2])})"
    if k == "seq": return f"(VSeq {v[1]} {clist(coq_value(x) for x in v[2])})"
    if k == "ctor": return f"(VCtor {cstr(v[1])} {clist(coq_value(x) for x in v[2])})"
    if k == "tup": return f"(VTup {clist(coq_value(x) for x in v[1])})"
    raise ValueError(v)


def coq_pat(p):
    k = p[0]
    if k == "wild": return "PWild"
    if k == "bind": return f"(PBind {cstr(p[1])})"
    if k == "at": return f"(PBindAt {cstr(p[1])} {coq_pat(p[2])})"
    if k == "int": return f"(PInt {cz(p[1])})"
    if k == "boollit": return f"(PBoolLit {cbool(p[1])})"
    if k == "strlit": return f"(PStrLit {cstr(p[1])})"
    if k == "range": return f"(PRange {copt(None if p[1] is None else cz(p[1]))} {copt(None if p[2] is None else cz(p[2]))})"
    if k == "or": return f"(POr {clist(coq_pat(q) for q in p[1])})"
    if k == "tuple": return f"(PTuple {clist(coq_pat(q) for q in p[1])})"
    if k == "paren": return f"(PParen {coq_pat(p[1])})"
    if k == "ctor": return f"(PCtor {cstr(p[1])} {clist(coq_pat(q) for q in p[2])})"
    if k == "struct": return f"(PStruct {cstr(p[1])} {clist(f'({i}%nat, {coq_pat(q)})' for i, q in p[2])})"
    if k == "slice":
        rest = "None" if p[2] is None else ("(Some None)" if p[2] == "" else f"(Some (Some {cstr(p[2])}))")
        return f"(PSlice {clist(coq_pat(q) for q in p[1])} {rest} {clist(coq_pat(q) for q in p[3])})"
    if k == "cmp": return f"(PCmp {cbool(p[1])} {coq_value(p[2])})"
    raise ValueError(p)


def coq_operand(o):
    return {"var": lambda: f"(OVar {cstr(o[1])})", "const": lambda: f"(OConst {cz(o[1])})", "len": lambda: f"(OLen {cstr(o[1])})"}[o[0]]()


def coq_guard(g):
    k = g[0]
    if k == "const": return f"(BAtom (AConst {cbool(g[1])}))"
    if k == "boolvar": return f"(BAtom (ABool {cstr(g[1])}))"
    if k == "issome": return f"(BAtom (AIsSome {cstr(g[1])}))"
    if k == "cmp": return f"(BAtom (ACmp {g[1]} {coq_operand(g[2])} {coq_operand(g[3])}))"
    if k == "not": return f"(BNot {coq_guard(g[1])})"
    if k == "paren": return f"(BParen {coq_guard(g[1])})"
    if k == "and": return f"(BAnd {coq_guard(g[1])} {coq_guard(g[2])})"
    if k == "or": return f"(BOr {coq_guard(g[1])} {coq_guard(g[2])})"
    raise ValueError(g)


def coq_surface(s):
    g = copt(None if s.get("guard") is None else coq_guard(s["guard"]))
    if s["form"] == "empty": return "SEmpty"
    if s["form"] == "simple": return f"(SSimple {clist(coq_pat(p) for p in s['pats'])} {g})"
    return f"(SDisj {clist(coq_pat(p) for p in s['pats'])} {g})"


def coq_case(case):
    doms = clist(clist(coq_value(v) for v in TYPES[t][4]) for t in case["sig"])
    if not case["sig"]:
        doms = "(@nil (list value))"
    return f"({coq_surface(case['surface'])}, {doms})"


PRELUDE = "From Unimock Require Import Model.Base Macro.RustPat Macro.Matching Macro.MatchingRun.\n"


# ---------------------------------------------------------------- rendering: Rust
def rust_str(s): return '"' + s + '"'


def rust_value(v):
    k = v[0]
    if k == "int": return str(v[1])
    if k == "bool": return cbool(v[1])
    if k == "str": return rust_str(v[2])
    if k == "seq": return "[" + ", ".join(rust_value(x) for x in v[2]) + "]"
    if k == "tup": return "(" + ", ".join(rust_value(x) for x in v[1]) + ")"
    if k == "ctor":
        c, fs = v[1], v[2]
        if c == "None": return "None"
        if c == "Some": return f"Some({rust_value(fs[0])})"
        if c == "A": return "E::A"
        if c == "B": return f"E::B({rust_value(fs[0])})"
        if c == "C": return f"E::C {{ x: {rust_value(fs[0])}, y: {rust_value(fs[1])} }}"
        if c == "S": return f"S {{ a: {rust_value(fs[0])}, b: {rust_value(fs[1])} }}"
    raise ValueError(v)


def rust_operand(ty, v):
    """the expression inside eq!(..)/ne!(..) and on the right of ==/!= in the literal match"""
    if ty == "string": return rust_str(v[2])                    # &String == &str
    if ty == "str": return "&" + rust_str(v[2])                 # &&str == &&str
    if ty == "slice": return "&&" + rust_value(v) + "[..]" if v[2] else "&&[0i32; 0][..]"      # &&[i32] == &&[i32]
    if ty == "vec": return "&vec!" + rust_value(v) if v[2] else "&Vec::<i32>::new()"   # &Vec<i32> == &Vec<i32>
    if ty == "opt" and v[1] == "None": return "&None::<i32>"
    return "&" + rust_value(v)


# constants and a unit variant that can be written as BARE identifiers (lower-case ones included): syn cannot tell such a
# pattern from a binding, rustc resolves it to the constant / variant -- it is refutable and matches like its value
NAMED_INT = {3: "three", 7: "SEVEN", -1: "neg_one", 4: "four"}


def mark_named(p, rng, top_int=False):
    """top_int: the pattern sits directly at an `i32` argument (scrutinee type `&i32`): the named constants are `&i32`
    constants, since rustc does not auto-dereference for constant patterns"""
    k = p[0]
    if k == "int" and len(p) == 2 and top_int and p[1] in NAMED_INT and rng.random() < 0.3: return ("int", p[1], "named")
    if k == "ctor" and p[1] == "A" and len(p) == 3 and rng.random() < 0.4: return ("ctor", "A", [], "named")
    if k == "or": return (k, [mark_named(q, rng, top_int) for q in p[1]])
    if k == "tuple": return (k, [mark_named(q, rng) for q in p[1]])
    if k == "paren": return (k, mark_named(p[1], rng, top_int))
    if k == "at": return (k, p[1], mark_named(p[2], rng, top_int))
    if k == "ctor": return (k, p[1], [mark_named(q, rng) for q in p[2]])
    if k == "struct": return (k, p[1], [(i, mark_named(q, rng)) for i, q in p[2]])
    if k == "slice": return (k, [mark_named(q, rng) for q in p[1]], p[2], [mark_named(q, rng) for q in p[3]])
    return p


def mark_named_surface(case, rng):
    s, sig = case["surface"], case["sig"]
    if s["form"] == "empty":
        return
    def alt(elems):
        return [mark_named(q, rng, top_int=(i < len(sig) and sig[i] == "int")) for i, q in enumerate(elems)]
    if s["form"] == "simple" and s.get("guard") is None:
        s["pats"] = alt(s["pats"])
    else:
        s["pats"] = [("tuple", alt(t[1])) if t[0] == "tuple" else (t[0], alt([t[1]])[0]) for t in s["pats"]]


def rust_pat(p, in_or=False):
    k = p[0]
    if k == "wild": return "_"
    if k == "int" and len(p) > 2: return NAMED_INT[p[1]]
    if k == "ctor" and p[1] == "A" and len(p) > 3: return "unit_a"
    if k == "bind": return p[1]
    if k == "at":
        inner = rust_pat(p[2])
        return f"{p[1]} @ ({inner})" if p[2][0] == "or" else f"{p[1]} @ {inner}"
    if k == "int": return str(p[1])
    if k == "boollit": return cbool(p[1])
    if k == "strlit": return rust_str(p[1])
    if k == "range":
        lo = "" if p[1] is None else str(p[1])
        return f"{lo}..={p[2]}" if p[2] is not None else f"{lo}.."
    if k == "or": return " | ".join(rust_pat(q, True) for q in p[1])
    if k == "tuple": return "(" + ", ".join(rust_pat(q) for q in p[1]) + ("," if len(p[1]) == 1 else "") + ")"
    if k == "paren": return "(" + rust_pat(p[1]) + ")"
    if k == "ctor":
        c, ps = p[1], p[2]
        if c == "None": return "None"
        if c == "Some": return f"Some({rust_pat(ps[0])})"
        if c == "A": return "E::A"
        if c == "B": return f"E::B({rust_pat(ps[0])})"
    if k == "struct":
        c = p[1]
        path = "E::C" if c == "C" else "S"
        fs = "".join(f"{FIELDS[c][i]}: {rust_pat(q)}, " for i, q in p[2])
        return f"{path} {{ {fs}.. }}"
    if k == "slice":
        parts = [rust_pat(q) for q in p[1]]
        if p[2] is not None:
            parts.append(".." if p[2] == "" else f"{p[2]} @ ..")
        parts += [rust_pat(q) for q in p[3]]
        return "[" + ", ".join(parts) + "]"
    raise ValueError(p)


OPS = {"OLt": "<", "OLe": "<=", "OGt": ">", "OGe": ">=", "OEq": "==", "ONe": "!="}


def rust_operand_g(o):
    return {"var": lambda: f"*{o[1]}", "const": lambda: str(o[1]), "len": lambda: f"{o[1]}.len()"}[o[0]]()


def rust_guard(g):
    k = g[0]
    if k == "const": return cbool(g[1])
    if k == "boolvar": return f"*{g[1]}"
    if k == "issome": return f"{g[1]}.is_some()"
    if k == "cmp": return f"{rust_operand_g(g[2])} {OPS[g[1]]} {rust_operand_g(g[3])}"
    if k == "not": return "!" + rust_guard(g[1])
    if k == "paren": return "(" + rust_guard(g[1]) + ")"
    if k == "and": return f"{rust_guard(g[1])} && {rust_guard(g[2])}"
    if k == "or": return f"{rust_guard(g[1])} || {rust_guard(g[2])}"
    raise ValueError(g)


def rust_arg_pat(sig, i, p):
    if p[0] == "cmp":
        return ("ne!(" if p[1] else "eq!(") + rust_operand(sig[i], p[2]) + ")"
    return rust_pat(p)


def alts_of(surface):
    """the alternatives as lists of argument patterns (what the front end is expected to produce)"""
    f = surface["form"]
    if f == "empty": return []
    if f == "simple":
        if surface.get("guard") is None: return [surface["pats"]]
        t = surface["pats"][0]
        return [t[1] if t[0] == "tuple" else [t[1]]]
    return [t[1] if t[0] == "tuple" else [t[1]] for t in surface["pats"]]


def rust_matching(case):
    """the token text between the parentheses of matching!( ... )"""
    s, sig = case["surface"], case["sig"]
    if s["form"] == "empty": return ""
    g = "" if s.get("guard") is None else " if " + rust_guard(s["guard"])
    if s["form"] == "simple" and s.get("guard") is None:
        return ", ".join(rust_arg_pat(sig, i, p) for i, p in enumerate(s["pats"]))
    def group(t):
        elems = t[1] if t[0] == "tuple" else [t[1]]
        inner = ", ".join(rust_arg_pat(sig, i, p) for i, p in enumerate(elems))
        return "(" + inner + ("," if t[0] == "tuple" and len(elems) == 1 else "") + ")"
    return " | ".join(group(t) for t in s["pats"]) + g


def rust_ref_fn(k, case):
    """(the parameters are called r_<i>: no binding of the generated patterns can shadow them)
    the literal Rust match: a tuple of the arguments (strings/slices through AsRef), one arm per alternative with the
    same patterns, the guard in parentheses, and == / != for eq!/ne! operands"""
    sig, s = case["sig"], case["surface"]
    params = ", ".join(f"r_{i}: {TYPES[t][1]}" for i, t in enumerate(sig))
    alts = alts_of(s)
    if not alts:
        return f"fn ref_{k}({params}) -> bool {{ true }}\n"
    scr = []
    for i, t in enumerate(sig):
        scr.append(f"AsRef::<str>::as_ref(r_{i})" if t in STRLIKE else f"AsRef::<[i32]>::as_ref(r_{i})" if t in SEQLIKE else f"r_{i}")
    arms = ""
    for alt in alts:
        pats = "".join(("_" if p[0] == "cmp" else rust_pat(p)) + ", " for p in alt)
        conds = []
        if s.get("guard") is not None:
            conds.append("(" + rust_guard(s["guard"]) + ")")
        for i, p in enumerate(alt):
            if p[0] == "cmp":
                conds.append(f"(r_{i} {'!=' if p[1] else '=='} {rust_operand(sig[i], p[2])})")
        arms += f"        ({pats})" + (" if " + " && ".join(conds) if conds else "") + " => true,\n"
    return (f"fn ref_{k}({params}) -> bool {{\n    match ({''.join(x + ', ' for x in scr)}) {{\n{arms}        _ => false,\n    }}\n}}\n")


def rust_prog(k, case, signame):
    sig = case["sig"]
    mock = signame + "Mock::f"
    args = ", ".join(TYPES[t][3].format(a=f"a{i}") for i, t in enumerate(sig))
    refargs = ", ".join(f"a{i}" for i in range(len(sig)))
    loops_open = "".join(f"for a{i} in &{TYPES[t][2]}() {{ " for i, t in enumerate(sig))
    loops_close = "}" * len(sig)
    return (rust_ref_fn(k, case) +
            f"fn prog_{k}() -> (String, String, String, usize) {{\n"
            f"    let (mut u, mut o, mut r, mut d) = (String::new(), String::new(), String::new(), 0usize);\n"
            f"    let m: &dyn Fn(&mut Matching<{mock}>) = matching!({rust_matching(case)});\n"
            f"    let mock = Unimock::new(({mock}.each_call(m).returns(true), {mock}.each_call(&|mm: &mut Matching<{mock}>| mm.func(|_, _| true)).returns(false)));\n"
            f"    {loops_open}\n"
            f"        let before = s_debug_runs();\n"
            f"        u.push(bit({signame}::f(&mock, {args})));\n"
            f"        d += s_debug_runs() - before;\n"
            f"        o.push(bit(ordered(|| {signame}::f(&Unimock::new({mock}.next_call(m).returns(true)), {args}))));\n"
            f"        r.push(bit(ref_{k}({refargs})));\n"
            f"    {loops_close}\n"
            f"    (u, o, r, d)\n}}\n")


def write_gen_rs(cases):
    sigs = {}
    for c in cases:
        sigs.setdefault(tuple(c["sig"]), f"Sig{len(sigs)}")
    src = ["// generated by vlib/props/C06.py -- do not edit", "use crate::types::*;", "use unimock::private::Matching;", "use unimock::*;", ""]
    for sig, name in sigs.items():
        params = "".join(f", a{i}: {TYPES[t][0]}" for i, t in enumerate(sig))
        src.append(f"#[unimock(api={name}Mock)]\npub trait {name} {{ fn f(&self{params}) -> bool; }}")
    line_of = []
    text = "\n".join(src) + "\n"
    for k, c in enumerate(cases):
        start = text.count("\n") + 1
        text += f"// ---- case {k}\n" + rust_prog(k, c, sigs[tuple(c["sig"])])
        line_of.append((start, text.count("\n")))
    text += f"pub const COUNT: usize = {len(cases)};\npub fn run(k: usize) -> (String, String, String, usize) {{\n    match k {{\n"
    text += "".join(f"        {k} => prog_{k}(),\n" for k in range(len(cases)))
    text += "        _ => panic!(\"no such case\"),\n    }\n}\n"
    path = os.path.join(C.VERIF, "harness", HARNESS, "src", "gen.rs")
    if not os.path.exists(path) or open(path).read() != text:
        open(path, "w").write(text)
    return line_of


# ---------------------------------------------------------------- generation
class Gen:
    def __init__(self, rng):
        self.rng = rng
        self.pb = 0.18      # probability of a binding at a leaf (raised when a guard will be generated)
        self.loose = 0.12   # probability of a wildcard at a leaf (raised with the arity)

    def int_lit(self):
        return self.rng.choice([-1, 0, 3, 4, 5, 7])

    def int_pat(self, name, bind, top=False, in_or=False, closed=False):
        r = self.rng.random()
        if r < self.loose: return ("wild",)
        if r < self.loose + self.pb and bind and not in_or: return self.bind(name, "int")
        if r < 0.62: return ("int", self.rng.choice(INTS) if self.rng.random() < 0.8 else self.int_lit())
        if r < 0.72:
            lo, hi = sorted([self.int_lit(), self.int_lit()])
            c = self.rng.random()
            if c < 0.6 or closed: return ("range", lo, hi)
            if c < 0.8 or not top or in_or: return ("range", None, hi)
            return ("range", lo, None)
        if r < 0.88 and not in_or:
            return ("or", [self.int_pat(name, False, in_or=True, closed=closed) for _ in range(self.rng.randint(2, 3))])
        if bind and not in_or:
            sub = self.int_pat(name, False, in_or=self.rng.random() < 0.5, closed=closed)
            if sub[0] in ("wild",): sub = ("int", self.int_lit())
            x = self.fresh("int")
            return ("at", x, sub) if x else sub
        return ("int", self.int_lit())

    # the integer pool includes names the macro itself uses for its closure parameters (a<i>), its eq!/ne! bindings (m<i>) and its
    # hoisted operand locals (l<k>): a user binding with such a name must not change what is compared
    POOLS = {"int": ["i0", "i1", "i2", "a0", "a1", "m0", "m1", "l0", "l1"], "bool": ["b0", "b1"], "len": ["n0", "n1"], "opt": ["o0", "o1"], "other": ["z0", "z1", "z2"]}

    def fresh(self, bty):
        """binder names come from a small pool PER TYPE (not per position), unique within one alternative: two
        alternatives then bind the same guard variable at different positions, e.g. `(i0, _) | (_, i0) if *i0 > 5`"""
        free = [x for x in self.POOLS[bty] if x not in {n for n, _ in self.binders}]
        if not free: return None
        x = self.rng.choice(free)
        self.binders.append((x, bty))
        return x

    def bind(self, name, bty):
        x = self.fresh(bty)
        return ("bind", x) if x else ("wild",)

    def bool_pat(self, name, bind):
        r = self.rng.random()
        if r < self.loose + 0.08: return ("wild",)
        if r < self.loose + 0.08 + self.pb and bind: return self.bind(name, "bool")
        return ("boollit", self.rng.random() < 0.5)

    def pat(self, ty, name, bind=True, top=True):
        rng = self.rng
        r = rng.random()
        if ty == "int": return self.int_pat(name, bind, top=top)
        if ty == "bool": return self.bool_pat(name, bind)
        if r < self.loose: return ("wild",)
        if r < self.loose + self.pb * 0.6 and bind:
            return self.bind(name, {"opt": "opt", "str": "len", "string": "len", "slice": "len", "vec": "len"}.get(ty, "other"))
        if ty == "opt":
            def one(b):
                return ("ctor", "None", []) if rng.random() < 0.3 else ("ctor", "Some", [self.int_pat(name + "v", b, in_or=not b)])
            if r < 0.75: return one(bind)
            if r < 0.9 or not bind: return ("or", [one(False), one(False)])
            x = self.fresh("opt")
            return ("at", x, one(False)) if x else one(False)
        if ty == "enum":
            def one(b):
                c = rng.random()
                if c < 0.25: return ("ctor", "A", [])
                if c < 0.6: return ("ctor", "B", [self.int_pat(name + "v", b, in_or=not b)])
                fs = []
                if rng.random() < 0.7: fs.append((0, self.int_pat(name + "x", b, in_or=not b)))
                if rng.random() < 0.6: fs.append((1, self.bool_pat(name + "y", b)))
                return ("struct", "C", fs)
            return one(bind) if r < 0.8 or not bind else ("or", [one(False), one(False)])
        if ty == "struct":
            fs = []
            if rng.random() < 0.8: fs.append((0, self.int_pat(name + "a", bind)))
            if rng.random() < 0.7: fs.append((1, self.bool_pat(name + "b", bind)))
            if rng.random() < 0.3: fs.reverse()
            return ("struct", "S", fs)
        if ty == "pair":
            one = lambda b: ("tuple", [self.int_pat(name + "l", b, in_or=not b), self.bool_pat(name + "r", b)])
            if r < 0.85 or not bind: return one(bind)
            return ("paren", ("or", [one(False), one(False)]))     # a bare `(..) | (..)` would be the disjunctive FORM
        if ty in STRLIKE:
            lit = lambda: ("strlit", rng.choice(STRS + ["a"]))
            return lit() if r < 0.7 else ("or", [lit() for _ in range(rng.randint(2, 3))])
        if ty in SEQLIKE:
            def one(b):
                el = lambda n: self.int_pat(name + n, b, in_or=not b, closed=True)
                shape = rng.choice(["e", "1", "2", "p", "s", "ps", "r", "pr", "rs", "prs"])
                if shape == "e": return ("slice", [], None, [])
                if shape == "1": return ("slice", [el("p")], None, [])
                if shape == "2": return ("slice", [el("p"), el("q")], None, [])
                if shape == "r" and b:
                    return ("slice", [], self.fresh("len") or "", [])
                pre = [el("p")] if "p" in shape else []
                post = [el("s")] if shape.endswith("s") else []
                rest = ""
                if b and rng.random() < 0.5:
                    rest = self.fresh("len") or ""
                return ("slice", pre, rest, post)
            return one(bind) if r < 0.8 or not bind else ("or", [one(False), one(False)])
        raise ValueError(ty)

    def cmp(self, ty):
        v = self.rng.choice(TYPES[ty][4])
        if ty == "int" and self.rng.random() < 0.3: v = vint(self.int_lit())
        return ("cmp", self.rng.random() < 0.4, v)

    # ---- guards (only precedence-well-formed trees: explicit BParen where Rust needs parentheses)
    def atom(self, vars_):
        rng = self.rng
        ints = [n for n, t in vars_ if t == "int"]
        lens = [n for n, t in vars_ if t == "len"]
        bools = [n for n, t in vars_ if t == "bool"]
        opts = [n for n, t in vars_ if t == "opt"]
        choices = ["const"] if not vars_ or rng.random() < 0.25 else []
        if not (ints or lens or bools or opts): choices = ["const"]
        if ints: choices += ["icmp"] * 5
        if lens: choices += ["lcmp"] * 3
        if bools: choices += ["bool"] * 3
        if opts: choices += ["opt"] * 3
        c = rng.choice(choices)
        op = rng.choice(list(OPS))
        if c == "const": return ("const", rng.random() < 0.5)
        if c == "bool": return ("boolvar", rng.choice(bools))
        if c == "opt": return ("issome", rng.choice(opts))
        if c == "icmp":
            a = ("var", rng.choice(ints))
            b = ("var", rng.choice(ints)) if len(ints) > 1 and rng.random() < 0.3 else ("const", rng.choice([0, 3, 4, 5]))
            return ("cmp", op, a, b) if rng.random() < 0.8 else ("cmp", op, b, a)
        a = ("len", rng.choice(lens))
        b = ("len", rng.choice(lens)) if len(lens) > 1 and rng.random() < 0.3 else ("const", rng.choice([0, 1, 2, 3]))
        return ("cmp", op, a, b)

    def unary(self, vars_, d):
        r = self.rng.random()
        if d > 0 and r < 0.15: return ("paren", self.or_level(vars_, d - 1))
        if r < 0.3:
            a = self.atom(vars_)
            return ("not", a if a[0] != "cmp" else ("paren", a))
        if d > 0 and r < 0.38: return ("not", ("paren", self.or_level(vars_, d - 1)))
        return self.atom(vars_)

    def and_level(self, vars_, d):
        g = self.unary(vars_, d)
        while self.rng.random() < 0.3:
            g = ("and", g, self.unary(vars_, d))
        return g

    def or_level(self, vars_, d, force_or=False):
        g = self.and_level(vars_, d)
        if force_or or self.rng.random() < 0.35:
            g = ("or", g, self.and_level(vars_, d))
            while self.rng.random() < 0.25:
                g = ("or", g, self.and_level(vars_, d))
        return g

    # ---- one case
    def alt(self, sig, want_cmp, lit_positions=None):
        self.binders = []
        pats = []
        for i, t in enumerate(sig):
            can_cmp = t not in ("ns", "nv") and not (lit_positions and i in lit_positions and t in ("str", "slice"))
            if can_cmp and self.rng.random() < (0.45 if want_cmp else 0.0):
                pats.append(self.cmp(t))
            else:
                pats.append(self.pat(t, f"x{i}"))
        return pats, list(self.binders)

    def case(self, pool):
        rng = self.rng
        sig = list(rng.choice(pool))
        n = len(sig)
        r = rng.random()
        if r < 0.015:
            return {"sig": sig, "surface": {"form": "empty"}, "_form": "empty"}
        want_cmp = rng.random() < 0.45
        want_guard = rng.random() < 0.6
        self.pb = 0.45 if want_guard else 0.15
        self.loose = 0.08 + 0.07 * n
        nalts = 2 if rng.random() < 0.4 else 1
        alts, binders = [], None
        lit_positions = set()
        for _ in range(nalts):
            pats, bs = self.alt(sig, want_cmp, lit_positions)
            for i, p in enumerate(pats):
                if kind_of(p) != "-": lit_positions.add(i)
            # a cmp generated BEFORE a literal at the same position of a later alternative: same restriction
            alts.append(pats)
            binders = set(bs) if binders is None else (binders & set(bs))
        for i in lit_positions:
            if sig[i] in ("str", "slice"):
                for a in alts:
                    if a[i][0] == "cmp":
                        self.binders = []
                        a[i] = ("wild",)
        # a name bound twice in one alternative is a Rust error: names are unique per position by construction
        vars_ = sorted(binders)
        guard = None
        has_cmp = any(p[0] == "cmp" for a in alts for p in a)
        if nalts == 1 and not want_guard and rng.random() < 0.85:
            surface = {"form": "simple", "pats": alts[0], "guard": None}
            form = "simple"
        else:
            if want_guard:
                guard = self.or_level(vars_, 2, force_or=has_cmp and rng.random() < 0.25)
            groups = [("paren", a[0]) if n == 1 and rng.random() < 0.7 else ("tuple", a) for a in alts]
            if nalts == 1:
                surface = {"form": "simple", "pats": [groups[0]], "guard": guard}
                form = "guarded" if guard is not None else "simple"
                if guard is None:
                    # `(p1, .., pn)` without a guard is ONE argument of tuple type: write the simple form instead
                    surface = {"form": "simple", "pats": alts[0], "guard": None}
            else:
                surface = {"form": "disj", "pats": groups, "guard": guard}
                form = "disj+guard" if guard is not None else "disj"
        return {"sig": sig, "surface": surface, "_form": form}


def kind_of(p):
    """pat_kind of the macro (for generation-time typing only; the model has its own transcription)"""
    if p[0] == "strlit": return "s"
    if p[0] == "slice": return "l"
    if p[0] == "or":
        ks = {kind_of(q) for q in p[1]}
        return ks.pop() if len(ks) == 1 else "-"
    return "-"


def sig_pool(rng, size):
    names = list(TYPES)
    weights = {"int": 5, "bool": 2, "opt": 2, "enum": 2, "struct": 1, "pair": 1, "str": 2, "string": 2, "ns": 1, "slice": 2, "vec": 2, "nv": 1}
    bag = [n for n in names for _ in range(weights[n])]
    pool = {("int", "int"), ("int",), ("string",), ("vec", "int")}
    while len(pool) < size:
        n = rng.choice([1, 1, 2, 2, 2, 3, 3, 4])
        pool.add(tuple(rng.choice(bag) for _ in range(n)))
    return sorted(pool)


def f3_witness():
    g = ("or", ("cmp", "OGt", ("var", "y"), ("const", 5)), ("cmp", "OLt", ("var", "y"), ("const", 0)))
    return {"sig": ["int", "int"], "_form": "guarded",
            "surface": {"form": "simple", "pats": [("tuple", [("cmp", False, vint(3)), ("bind", "y")])], "guard": g}}


def directed_cases():
    """boundary-directed family: every guard shape (one per precedence class) x every position / polarity of an
    eq!/ne! operand x one or two alternatives binding the guard variable at different positions"""
    v = lambda x: ("var", x)
    k = lambda z: ("const", z)
    c = lambda op, a, b: ("cmp", op, a, b)
    gt5, lt0, eq3, lt7, gt3 = c("OGt", v("i0"), k(5)), c("OLt", v("i0"), k(0)), c("OEq", v("i0"), k(3)), c("OLt", v("i0"), k(7)), c("OGt", v("i0"), k(3))
    guards = [("or", gt5, lt0), ("and", gt3, lt7), gt3, ("not", ("paren", gt3)), ("paren", ("or", gt5, lt0)),
              ("or", ("or", gt5, lt0), eq3), ("or", lt0, ("and", gt3, lt7)), ("and", ("paren", ("or", gt5, lt0)), ("not", ("paren", eq3))),
              ("const", True), ("or", ("const", False), ("const", True))]
    b = ("bind", "i0")
    out = []
    for g in guards:
        for ne in (False, True):
            cm = ("cmp", ne, vint(3))
            for alts in ([[cm, b]], [[b, cm]], [[cm, b], [b, cm]], [[b, ("wild",)], [("wild",), b]], [[cm, b], [b, ("int", 7)]],
                         [[b, ("range", 3, 4)], [("or", [("int", -1), ("int", 7)]), b]],
                         # an eq!/ne! operand in a LATER alternative only (the guard is spliced into every arm)
                         [[b, ("int", 7)], [cm, b]], [[b, ("wild",)], [b, cm]]):
                if ne and not any(p[0] == "cmp" for a in alts for p in a): continue
                groups = [("tuple", a) for a in alts]
                surface = {"form": "simple" if len(alts) == 1 else "disj", "pats": groups, "guard": g}
                out.append({"sig": ["int", "int"], "surface": surface, "_form": "directed"})
    # a binding that is called like one of the identifiers the expansion itself introduces (closure parameters a<i>, eq!/ne!
    # bindings m<i>, hoisted operand locals l<k>), next to an eq!/ne! operand: the name of a binding is irrelevant to a Rust match
    for name in ("a0", "a1", "m0", "m1", "l0", "l1", "reporter"):
        bn = ("bind", name)
        for ne in (False, True):
            cm = ("cmp", ne, vint(3))
            for alts, g in (([[cm, bn]], None), ([[bn, cm]], None), ([[cm, bn]], c("OGe", v(name), k(0))), ([[bn, cm]], c("OLt", v(name), k(7))),
                            ([[cm, bn], [bn, ("cmp", ne, vint(7))]], c("OGe", v(name), k(0)))):
                if g is None:
                    out.append({"sig": ["int", "int"], "_form": "directed", "surface": {"form": "simple", "pats": alts[0], "guard": None}})
                else:
                    out.append({"sig": ["int", "int"], "_form": "directed",
                                "surface": {"form": "simple" if len(alts) == 1 else "disj", "pats": [("tuple", a) for a in alts], "guard": g}})
    # eq!/ne! on a user type whose PartialEq::ne is overridden and is NOT the negation of eq (struct S: `!=` looks at the first field
    # only): ne!(o) must evaluate `value != o`, eq!(o) `value == o` - a Rust match with those comparisons does
    for ne in (False, True):
        for operand in (vctor("S", [vint(3), vbool(False)]), vctor("S", [vint(3), vbool(True)]), vctor("S", [vint(7), vbool(False)])):
            cm = ("cmp", ne, operand)
            out.append({"sig": ["struct"], "_form": "directed", "surface": {"form": "simple", "pats": [cm], "guard": None}})
            out.append({"sig": ["struct", "int"], "_form": "directed", "surface": {"form": "simple", "pats": [cm, ("bind", "i0")], "guard": None}})
            out.append({"sig": ["int", "struct"], "_form": "directed",
                        "surface": {"form": "disj", "pats": [("tuple", [("int", 3), cm]), ("tuple", [("wild",), ("cmp", not ne, operand)])], "guard": None}})
    cg = [None, ("const", True), ("or", ("const", False), ("const", True)), ("and", ("const", True), ("const", True))]
    for g in cg:
        for a, bb in ((False, False), (False, True), (True, False), (True, True)):
            alt = [("cmp", a, vint(3)), ("cmp", bb, vint(7)), ("cmp", a, vint(4))]
            out.append({"sig": ["int", "int", "int"], "_form": "directed",
                        "surface": {"form": "simple", "pats": [("tuple", alt)] if g is not None else alt, "guard": g}})
            out.append({"sig": ["int", "int", "int"], "_form": "directed",
                        "surface": {"form": "disj", "guard": g,
                                    "pats": [("tuple", alt), ("tuple", [("cmp", bb, vint(7)), ("wild",), ("cmp", not a, vint(3))])]}})
    # an alternative made of wildcards only, under a guard that binds nothing (constants): the guard still decides
    w = ("wild",)
    for g in (("const", False), ("const", True), ("and", ("const", True), ("const", False)), ("not", ("paren", ("const", True))),
              ("or", ("const", False), ("const", False))):
        out.append({"sig": ["int"], "_form": "directed", "surface": {"form": "simple", "pats": [("tuple", [w])], "guard": g}})
        out.append({"sig": ["int", "int"], "_form": "directed", "surface": {"form": "simple", "pats": [("tuple", [w, w])], "guard": g}})
        out.append({"sig": ["int", "int"], "_form": "directed", "surface": {"form": "disj", "guard": g,
                                                                          "pats": [("tuple", [("int", 3), ("int", 7)]), ("tuple", [w, w])]}})
        out.append({"sig": ["enum", "str"], "_form": "directed", "surface": {"form": "disj", "guard": g,
                                                                           "pats": [("tuple", [w, w]), ("tuple", [("ctor", "A", []), ("strlit", "ab")])]}})
    # zero-argument functions: matching!() and the guarded empty tuple `() if g` (the guard can only be built
    # from constants; the analysed argument list is empty but the pattern list is not)
    tt, ff = ("const", True), ("const", False)
    out.append({"sig": [], "_form": "directed", "surface": {"form": "empty"}})
    for g in (tt, ff, ("or", ff, tt), ("and", tt, ff), ("not", ("paren", tt)), ("not", ("paren", ("and", tt, ff))), ("paren", ("or", ff, ff))):
        out.append({"sig": [], "_form": "directed", "surface": {"form": "simple", "pats": [("tuple", [])], "guard": g}})
        if g is not None:
            out.append({"sig": [], "_form": "directed", "surface": {"form": "disj", "pats": [("tuple", []), ("tuple", [])], "guard": g}})
    # single- versus multi-argument packing and the coercions, all holders
    for t in STRLIKE:
        out.append({"sig": [t], "_form": "directed", "surface": {"form": "simple", "pats": [("or", [("strlit", "ab"), ("strlit", "b")])], "guard": None}})
        out.append({"sig": [t, "int"], "_form": "directed", "surface": {"form": "disj", "guard": None,
                    "pats": [("tuple", [("strlit", "ab"), ("wild",)]), ("tuple", [("wild",), ("int", 7)])]}})
    for t in SEQLIKE:
        out.append({"sig": [t], "_form": "directed", "surface": {"form": "simple", "pats": [("slice", [("int", 3)], "", [])], "guard": None}})
        out.append({"sig": ["int", t], "_form": "directed", "surface": {"form": "disj", "guard": ("cmp", "OGe", ("len", "n0"), ("const", 2)),
                    "pats": [("tuple", [("int", 3), ("bind", "n0")]), ("tuple", [("wild",), ("slice", [("int", 7)], "n0", [])])]}})
    return out


def gen_cases(rng, tier):
    n = 420 if tier == "quick" else 3000
    pool = sig_pool(rng, 40 if tier == "quick" else 160)
    g = Gen(rng)
    cases = [f3_witness()] + directed_cases()         # corpus: the recorded witness of F3, then the directed family
    while len(cases) < n:
        cases.append(g.case(pool))
    # some literals / unit variants are written as named constants (bare identifiers)
    for c in cases[1:]:
        mark_named_surface(c, rng)
    for sig, pats in ((["int", "int"], [("int", 3, "named"), ("wild",)]), (["int", "int"], [("int", 7, "named"), ("int", -1, "named")]),
                      (["enum"], [("ctor", "A", [], "named")]), (["enum", "int"], [("ctor", "A", [], "named"), ("int", 4, "named")])):
        cases.append({"sig": sig, "_form": "directed", "surface": {"form": "simple", "pats": pats, "guard": None}})
        cases.append({"sig": sig, "_form": "directed", "surface": {"form": "disj", "guard": None,
                                                                    "pats": [("tuple", pats), ("tuple", [("wild",)] * len(sig))][:1] + [("tuple", pats)]}})
    return cases


# ---------------------------------------------------------------- running
def harness_lines(n):
    return [f"case {k}" for k in range(n)]


def both(cases):
    line_of = write_gen_rs(cases)
    try:
        binary = C.build_harness(HARNESS)
    except C.CheckFailure as f:
        f.line_of = line_of
        raise
    impl = C.run_harness(binary, harness_lines(len(cases)), jobs=8)
    model = C.coq_eval_cases(PRELUDE, [coq_case(c) for c in cases], shard=max(4, (len(cases) + 15) // 16))
    return impl, model


def parse_obs(lines):
    d = {}
    for l in lines or []:
        if " " in l:
            k, v = l.split(" ", 1)
            d[k] = v
    return d


def first_diff(a, b):
    if a is None or b is None: return 0
    for i, (x, y) in enumerate(zip(a, b)):
        if x != y: return i
    return min(len(a), len(b)) if len(a) != len(b) else None


def tuple_at(case, idx):
    doms = [TYPES[t][4] for t in case["sig"]]
    out = []
    for d in reversed(doms):
        out.append(d[idx % len(d)])
        idx //= len(d)
    return [rust_value(v) for v in reversed(out)]


def judge(case, impl_lines, model_lines):
    """-> (verdict, info).  verdict: ok | known | violation | broken"""
    i, m = parse_obs(impl_lines), parse_obs(model_lines)
    iu, io, ir = i.get("U"), i.get("O"), i.get("R")
    if "FE" in m:
        return "broken", {"why": "the model's front end rejects an input that the real macro compiled", "model": m["FE"]}
    mu, mo, ms = m.get("U"), m.get("O"), m.get("S")
    flags = dict(kv.split("=") for kv in m.get("H", "").split())
    f3 = flags.get("f3") == "1"
    info = {"impl_unordered": iu, "impl_ordered": io, "rustc_match": ir, "model_unordered": mu, "model_ordered": mo, "spec": ms, "flags": flags}
    if iu is None or io is None or ir is None:
        return "violation", dict(info, why="the program crashed or printed nothing on the implementation side", raw=impl_lines)
    if i.get("D") not in (None, "0"):
        return "violation", dict(info, why="the generated matcher ran user code (the Debug impl of an argument) while it only had to decide: "
                                            f"{i.get('D')} runs during the unordered evaluations, where diagnostics are never requested", mode="unordered")
    if iu != ir or io != ir:
        which = "unordered" if iu != ir else "ordered"
        k = first_diff(iu if iu != ir else io, ir)
        info.update(why=f"{which} evaluation of the matcher differs from rustc's match", mode=which, tuple_index=k,
                    tuple=tuple_at(case, k) if k is not None and k < len(ir) else None)
        if f3 and iu == mu and io == mo:
            return "known", info
        return "violation", info
    # the property holds on this input on the implementation; now the tie
    if ms != ir:
        return "broken", dict(info, why="Spec.RustMatch.rust_match disagrees with rustc's match (spec evaluator is wrong)")
    if flags.get("wc") != "1":
        return "broken", dict(info, why="premise well_coerced of the theorem does not hold on a program rustc accepted")
    if (mu, mo) != (iu, io):
        if f3 and mu == mo:      # implementation shows the SPEC behaviour inside the F3 class: the fault is repaired
            return "ok", dict(info, f3_repaired=True)
        return "broken", dict(info, why="the macro model (generate+run) disagrees with the implementation, which itself agrees with rustc: the model no longer describes the macro")
    return "ok", info


def has_known_entry():
    return any(f.get("property") == "C06" and f.get("id") == F3_ID for f in C.known_findings().get("known", []))


# ---------------------------------------------------------------- shrinking
def sub_pats(p):
    """strictly simpler replacements for a pattern"""
    k = p[0]
    out = []
    if k != "wild": out.append(("wild",))
    if k in ("or",):
        out += list(p[1])
        if len(p[1]) > 2: out += [("or", p[1][:i] + p[1][i + 1:]) for i in range(len(p[1]))]
    if k in ("at", "paren"): out.append(p[2] if k == "at" else p[1])
    if k in ("tuple",): out += [("tuple", p[1][:i] + [q] + p[1][i + 1:]) for i in range(len(p[1])) for q in sub_pats(p[1][i])]
    if k == "ctor": out += [("ctor", p[1], p[2][:i] + [q] + p[2][i + 1:]) for i in range(len(p[2])) for q in sub_pats(p[2][i])]
    if k == "struct": out += [("struct", p[1], p[2][:i] + p[2][i + 1:]) for i in range(len(p[2]))]
    return out


def sub_guards(g):
    k = g[0]
    out = []
    if k in ("and", "or"): out += [g[1], g[2]]
    if k in ("not", "paren"): out.append(g[1])
    if k != "const": out.append(("const", True))
    return out


def guard_vars(g):
    if g[0] in ("boolvar", "issome"): return {g[1]}
    if g[0] == "cmp": return {o[1] for o in (g[2], g[3]) if o[0] in ("var", "len")}
    if g[0] == "const": return set()
    return set().union(*[guard_vars(x) for x in g[1:]])


def pat_binders(p):
    k = p[0]
    if k == "bind": return {p[1]}
    if k == "at": return {p[1]} | pat_binders(p[2])
    if k in ("or",): return pat_binders(p[1][0]) if p[1] else set()
    if k == "tuple": return set().union(set(), *[pat_binders(q) for q in p[1]])
    if k == "paren": return pat_binders(p[1])
    if k == "ctor": return set().union(set(), *[pat_binders(q) for q in p[2]])
    if k == "struct": return set().union(set(), *[pat_binders(q) for _, q in p[2]])
    if k == "slice":
        s = set().union(set(), *[pat_binders(q) for q in p[1] + p[3]])
        return s | ({p[2]} if p[2] else set())
    return set()


def well_scoped(case):
    s = case["surface"]
    g = s.get("guard")
    if g is None: return True
    need = guard_vars(g)
    return all(need <= set().union(set(), *[pat_binders(p) for p in alt]) for alt in alts_of(s))


def shrink_candidates(case):
    s = case["surface"]
    out = []
    def with_surface(ns):
        c = {"sig": case["sig"], "surface": ns, "_form": case.get("_form", "?")}
        if well_scoped(c): out.append(c)
    if s["form"] == "empty": return out
    if s.get("guard") is not None:
        for g in sub_guards(s["guard"]):
            with_surface(dict(s, guard=g))
    if s["form"] == "disj" and len(s["pats"]) == 2:
        for t in s["pats"]:
            with_surface({"form": "simple", "pats": [t], "guard": s.get("guard")} if s.get("guard") is not None
                         else {"form": "simple", "pats": (t[1] if t[0] == "tuple" else [t[1]]), "guard": None})
    grouped = not (s["form"] == "simple" and s.get("guard") is None)
    for gi, t in enumerate(s["pats"]):
        elems = (t[1] if t[0] == "tuple" else [t[1]]) if grouped else None
        if grouped:
            for i, p in enumerate(elems):
                for q in ([] if p[0] == "cmp" else sub_pats(p)) + ([("wild",)] if p[0] == "cmp" else []):
                    ne = elems[:i] + [q] + elems[i + 1:]
                    nt = ("tuple", ne) if t[0] == "tuple" else ("paren", ne[0])
                    with_surface(dict(s, pats=s["pats"][:gi] + [nt] + s["pats"][gi + 1:]))
        else:
            for q in ([] if t[0] == "cmp" else sub_pats(t)) + ([("wild",)] if t[0] == "cmp" else []):
                with_surface(dict(s, pats=s["pats"][:gi] + [q] + s["pats"][gi + 1:]))
    return out


def jsonable(x):
    return json.loads(json.dumps(x))


def retuple(x):
    """JSON round trip turns tuples into lists: restore the tagged-tuple form"""
    if isinstance(x, list):
        if x and isinstance(x[0], str) and x[0] in TAGS: return tuple(retuple(y) for y in x)
        return [retuple(y) for y in x]
    if isinstance(x, dict): return {k: retuple(v) for k, v in x.items()}
    return x


TAGS = {"wild", "bind", "at", "int", "boollit", "strlit", "range", "or", "tuple", "paren", "ctor", "struct", "slice", "cmp",
        "bool", "str", "seq", "tup", "const", "boolvar", "issome", "not", "and", "var", "len"}


def fix_struct_fields(x):
    """struct field lists are lists of (index, pat) pairs -- after retuple they are lists of [i, pat]"""
    if isinstance(x, tuple):
        if x[0] == "struct": return ("struct", x[1], [(i, fix_struct_fields(q)) for i, q in x[2]])
        return tuple(fix_struct_fields(y) for y in x)
    if isinstance(x, list): return [fix_struct_fields(y) for y in x]
    if isinstance(x, dict): return {k: fix_struct_fields(v) for k, v in x.items()}
    return x


def load_case(c):
    return fix_struct_fields(retuple(c))


def describe(case):
    sig = ", ".join(f"a{i}: {TYPES[t][0]}" for i, t in enumerate(case["sig"]))
    return f"fn f(&self, {sig}) -> bool  with  matching!({rust_matching(case)})"


def is_nontrivial(case, info):
    ir = info.get("rustc_match") or ""
    if not ("0" in ir and "1" in ir): return False
    s = case["surface"]
    txt = json.dumps(jsonable(s.get("pats", [])))
    return s.get("guard") is not None or '"cmp"' in txt or s["form"] == "disj" or '"strlit"' in txt or '"slice"' in txt or '"or"' in txt


def features(case, info):
    s = case["surface"]
    txt = json.dumps(jsonable(s.get("pats", [])))
    f = ["form=" + case.get("_form", "?"), "arity=%d" % len(case["sig"])]
    g = s.get("guard")
    if g is not None:
        f.append("guard")
        f.append("guard_top=" + g[0])
        for k in ("not", "paren", "and", "or", "issome", "boolvar", "len", "var"):
            if f'"{k}"' in json.dumps(jsonable(g)): f.append("guard_has=" + k)
    for k, name in (("cmp", "eq/ne operand"), ("strlit", "string literal"), ("slice", "slice pattern"), ("or", "or-pattern"),
                    ("at", "@-binding"), ("range", "range"), ("struct", "struct pattern"), ("ctor", "enum/Option pattern"),
                    ("bind", "binding"), ("tuple", "tuple pattern")):
        if f'["{k}"' in txt: f.append("pat=" + name)
    fl = info.get("flags", {})
    if fl.get("f3") == "1": f.append("class=F3")
    if fl.get("kinds") and set(fl["kinds"]) - {"-"}: f.append("coercion=" + "".join(sorted(set(fl["kinds"]) - {"-"})))
    for t in set(case["sig"]): f.append("type=" + t)
    ir = info.get("rustc_match") or ""
    f.append("outcome=" + ("mixed" if "0" in ir and "1" in ir else "all-accept" if "1" in ir else "all-reject"))
    return f


def diagnose_build_failure(f, cases):
    """map rustc's error locations in gen.rs back to the generated programs (the CheckFailure carries only the tail of
    the build log, so the build is repeated once with short messages to see every error)"""
    hdir = os.path.join(C.VERIF, "harness", HARNESS)
    env = dict(C.ENV)
    env["CARGO_TARGET_DIR"] = os.path.join(C.CACHE, "target", HARNESS)
    env["RUSTFLAGS"] = "--cfg unimock_verif"
    rc, out, err = C.sh(["cargo", "build", "--offline", "--quiet", "--message-format", "short"], cwd=hdir, env=env, timeout=1500)
    text = err + out + f.detail
    lines = sorted({int(m.group(1)) for m in re.finditer(r"src/gen\.rs:(\d+):\d+: error", text)}
                   | {int(m.group(1)) for m in re.finditer(r"--> src/gen\.rs:(\d+):", f.detail)})
    hit = []
    for ln in lines:
        for k, (a, b) in enumerate(getattr(f, "line_of", [])):
            if a <= ln <= b and k not in hit:
                hit.append(k)
    return hit


def both_tolerant(cases):
    """both(), going on without the generated programs that the real macro / rustc no longer compile.
    -> (cases kept, impl, model, [(case, rustc errors)])"""
    uncompilable = []
    for attempt in range(4):
        try:
            impl, model = both(cases)
            return cases, impl, model, uncompilable
        except C.CheckFailure as f:
            hit = diagnose_build_failure(f, cases) if hasattr(f, "line_of") else []
            if not hit or attempt == 3:
                raise
            errs = [l for l in f.detail.splitlines() if l.startswith("error")][:3]
            uncompilable += [(cases[k], errs) for k in hit]
            cases = [c for k, c in enumerate(cases) if k not in hit]      # a behavioural failure is the better replay


def run(tier, seed):
    t0 = time.time()
    rng = random.Random(seed)
    obligations = C.proof_obligations("C06", MODULE, THEOREMS)
    cases = gen_cases(rng, tier)
    cases, impl, model, uncompilable = both_tolerant(cases)
    verdicts = [judge(c, i, m) for c, i, m in zip(cases, impl, model)]
    dist = collections.Counter()
    for c, (v, info) in zip(cases, verdicts):
        dist.update(features(c, info))
    distinct = {}
    for c, (v, info) in zip(cases, verdicts):
        distinct.setdefault(json.dumps(jsonable({"s": c["surface"], "t": c["sig"]}), sort_keys=True), (c, info))
    nt = sum(1 for c, info in distinct.values() if is_nontrivial(c, info))
    tuples_total = sum(len((info.get("rustc_match") or "")) for _, info in verdicts)
    bad = [k for k, (v, _) in enumerate(verdicts) if v == "violation"]
    broken = [k for k, (v, _) in enumerate(verdicts) if v == "broken"]
    known = [k for k, (v, _) in enumerate(verdicts) if v == "known"]
    entry = has_known_entry()
    if known and not entry:
        bad = known + bad
    cov = {
        "obligations": len(obligations) + 1,
        "discharged": len(obligations) + (0 if (bad or broken) else 1),
        "checker_cmd": f"make -C /verif/coq (coqc 8.16.1, full .vo) ; ./check C06 --tier {tier}",
        "trusted_base": C.TRUSTED_BASE + [
            "rustc's own `match` on the literal function emitted next to every matching! (the oracle on the implementation side)",
            "Macro/RustPat.v: Rust's pattern / guard semantics on the value universe (checked against rustc on every run: spec bits = rustc bits)",
            "concat_and in Macro/Matching.v stands for rustc re-parsing the `&&`-joined guard tokens (precedence of && over ||); "
            "macro-generated identifiers m<i>/l<k> are a separate name class (user identifiers of that form are outside the grammar)"],
        "theorems": obligations,
        "correspondence_obligation": "every generated program: implementation(unordered) = implementation(ordered) = rustc match; "
                                     "model(off/on) = implementation; spec = rustc match; premises f3_class/well_coerced evaluated per case",
        "evaluations": len(cases), "argument_tuples_evaluated": tuples_total, "distinct_nontrivial": nt, "rule": RULE,
        "samples": [{"program": describe(c), "rustc_match": verdicts[k][1].get("rustc_match")} for k, c in list(enumerate(cases))[-6:]],
        "distribution": dict(sorted(dist.items())),
        "known_finding_cases": len(known),
        "excluded_from_generation": [
            "three or more top-level alternatives (refused by the macro with `Expected tuple` for every arity: theorem C06_frontend; probe-compiled by hand)",
            "guards on the un-parenthesised simple form (`p if g`: Expected tuple; `p, q if g`: Too many elements)",
            "eq!/ne! operands on newtype arguments (NS/NV have no PartialEq with a literal) and on &str/&[T] positions where another alternative has a literal",
            "or-patterns that mix string/slice literals with other patterns (do not type-check: guess_arg_kind gives Unknown)",
            "half-open ranges `lo..` inside or-patterns and nested positions; exclusive ranges; reference patterns; user identifiers named m<i>/l<k>/a<i>/reporter",
            "matching!(if g) with no pattern"],
    }
    if bad:
        k = bad[0]
        case, (v, info) = cases[k], verdicts[k]
        # shrink (bounded: every round recompiles one generated crate with all candidates)
        for _ in range(5 if tier == "quick" else 12):
            cands = shrink_candidates(case)[:60]
            if not cands: break
            try:
                cands, ci, cm, _ = both_tolerant(cands)
            except C.CheckFailure:
                break
            nxt = None
            for c2, i2, m2 in zip(cands, ci, cm):
                v2, info2 = judge(c2, i2, m2)
                if v2 == "violation" or (v2 == "known" and v == "known"):
                    nxt = (c2, (v2, info2)); break
            if nxt is None: break
            case, (v, info) = nxt
        payload = {"property": "C06", "seed": seed,
                   "theorem_or_correspondence": "C06_accepts_iff_rust_match / C06_diagnostics_independent via correspondence C06 "
                                                "(real matching! vs literal Rust match compiled in the same program)",
                   "case": jsonable({"sig": case["sig"], "surface": case["surface"], "_form": case.get("_form")}),
                   "program": describe(case), "literal_match": rust_ref_fn(0, case),
                   "failing_argument_tuple": info.get("tuple"), "mode": info.get("mode"), "why": info.get("why"),
                   "expected_by_spec(rustc match bits)": info.get("rustc_match"),
                   "observed_unordered": info.get("impl_unordered"), "observed_ordered": info.get("impl_ordered"),
                   "model_unordered": info.get("model_unordered"), "model_ordered": info.get("model_ordered"),
                   "coq_case": coq_case(case), "failing_cases_in_run": len(bad), "original_case": describe(cases[k]),
                   "programs_that_no_longer_compile": [describe(c) for c, _ in uncompilable][:5],
                   "note": ("inside the recorded F3 class but known_findings.json has no entry id=F3 property=C06" if v == "known" else ""),
                   "replay_cmd": "./check C06 --replay <this file>"}
        path = C.write_replay("C06", seed, payload)
        C.write_evidence("C06", tier, seed, cov, time.time() - t0, 1)
        C.violation("C06", path)
        return 1
    if uncompilable:
        # an input that the model's front end and typing accept does not compile with the real macro any more
        case, errs = uncompilable[0]
        model1 = C.coq_eval_cases(PRELUDE, [coq_case(case)], shard=4)
        payload = {"property": "C06", "seed": seed, "theorem_or_correspondence":
                   "correspondence C06: an input of the property's grammar that the model's front end accepts must compile with the real macro",
                   "case": jsonable(case), "program": describe(case), "rustc_errors": errs,
                   "model": model1[0], "failing_programs_in_run": len(uncompilable), "replay_cmd": "./check C06 --replay <this file>"}
        path = C.write_replay("C06", seed, payload)
        C.write_evidence("C06", tier, seed, dict(cov, discharged=len(obligations)), time.time() - t0, 1)
        C.violation("C06", path)
        return 1
    if broken:
        k = broken[0]
        raise C.CheckFailure("correspondence C06: model/spec no longer agree with the implementation although it agrees with rustc's match: "
                             + verdicts[k][1].get("why", ""), json.dumps({"program": describe(cases[k]), "info": verdicts[k][1]}, indent=1))
    if known:
        wk = known[0]
        what = next(f.get("what", "") for f in C.known_findings()["known"] if f.get("property") == "C06" and f.get("id") == F3_ID)
        print(f"KNOWN-FINDING: property=C06 {what} ({len(known)} generated programs of this run show it; first: "
              f"{describe(cases[wk])} on {verdicts[wk][1].get('tuple')})")
    # runtime half: which matcher functions the runtime consults for a call, and when it collects diagnostics
    from ..trace_part import TracePart
    tn, tpayload, tcov = TracePart("C06")(rng, tier, seed, [])
    cov.update(tcov)
    cov["obligations"] += 1
    cov["evaluations"] += tn
    if tpayload is not None:
        path = C.write_replay("C06", seed, tpayload)
        C.write_evidence("C06", tier, seed, cov, time.time() - t0, 1)
        C.violation("C06", path)
        return 1
    cov["discharged"] += 1
    C.write_evidence("C06", tier, seed, cov, time.time() - t0, 0,
                     assumptions=["model/implementation agreement is established on the generated programs only",
                                  "F3 class (bare top-level `||` guard next to eq!/ne!) is excluded from the main theorem: known finding"])
    print(f"C06: {len(obligations)} theorems closed; {len(cases)} generated matching! programs ({tuples_total} argument tuples, "
          f"unordered+ordered+rustc match) and {tn} matcher-trace co-executions agree ({time.time()-t0:.1f}s)")
    return 0


def replay(path):
    payload = json.load(open(path))
    if payload.get("part") == "trace":
        from ..trace_part import replay_trace
        return replay_trace("C06", payload, path)
    case = payload.get("case")
    if case is None:
        print("replay file names an obligation, not an input:", payload.get("theorem_or_correspondence"))
        return 1
    case = load_case(case)
    try:
        ci, cm = both([case])
    except C.CheckFailure as f:
        print("program  :", describe(case))
        print("does not compile against the current tree:", [l for l in f.detail.splitlines() if l.startswith("error")][:3])
        C.violation("C06", path)
        return 1
    v, info = judge(case, ci[0], cm[0])
    print("program  :", describe(case))
    for k in ("rustc_match", "impl_unordered", "impl_ordered", "model_unordered", "model_ordered", "spec"):
        print(f"{k:15}:", info.get(k))
    if v in ("violation", "broken") or (v == "known" and not has_known_entry()):
        print("differs   :", info.get("why"), "at tuple", info.get("tuple"))
        C.violation("C06", path)
        return 1
    print("known finding F3" if v == "known" else "agree on the property's projection")
    return 0

"""C14 -- clause composition preserves order and rejects inconsistent setups up front."""
import collections, json, os, random, shutil, tempfile, time
from .. import common as C
from .. import cases as K
from ..layer_a import proj_kinds
from ..runner import canon

MODULE = "Props.C14"
THEOREMS = ["C14_flatten_is_leaves", "C14_rejected_iff", "C14_accepted_iff", "C14_constructor",
            "C14_no_at_least_on_ordered", "C14_then_needs_exact", "C14_nonvacuous", "C14_stub_conflict_nonvacuous"]

RULE = ("clause trees written as REAL Rust tuple expressions, regenerated and compiled on every run: (1) one flat tuple per "
        "arity 2..16 of tagged ordered clauses -- the order in which the real impl visits its elements is read off the responses "
        "and written to TupleOrderCheck.v, where Coq re-checks it is 0..n-1 and instantiates the flatten=leaves theorem; (2) nested "
        "trees (depth <= 3, <= 16 elements per tuple, `()` elements, ordered clauses over 4 methods with counts 0-2 interleaved with "
        "unordered ones, ordered then()-chains with an unquantified or counted tail) driven through their whole slot sequence and verified; (3) rejection: a mode conflict (both directions), an "
        "empty stub or both, placed at every leaf position of a tree, observed at Unimock::new/new_partial (every other one constructed by cleanup code while the thread unwinds). The model runs the SPEC "
        "order (leaves left to right). distinct = canonical JSON; non-trivial = tree with a nested tuple or an offending clause")

VAL_MIDS = [0, 1, 2, 3]


# ---------------------------------------------------------------- trees
def leaf_call(mid, opener, tag, count=None, dbg=None):
    ops = [("ret", tag)] if opener != "each" or True else []
    if count is not None:
        ops.append(("n", count))
    return {"kind": "call", "mid": mid, "opener": opener, "pat": {"matcher": 255, "dbg": dbg, "ops": ops}}


def leaf_calls(ops):
    """number of calls an ordered chain of responses stands for: the exact counts, plus one for an unquantified last response"""
    n, pending = 0, False
    for o in ops:
        if o[0] in ("ret", "ans", "retd", "pan", "unm", "dfl"): pending = True
        elif o[0] in ("n",): n += o[1]; pending = False
        elif o[0] == "once": n += 1; pending = False
    return n + (1 if pending else 0)


def leaves(t):
    if t is None:
        return []
    if isinstance(t, list):
        out = []
        for x in t:
            out += leaves(x)
        return out
    return [t]


def depth(t):
    return 1 + max([depth(x) for x in t] + [0]) if isinstance(t, list) else 0


def rust_pat(mid, p):
    ty = f"TMock::m{mid}"
    body = ""
    if p["matcher"] is not None:
        body += f"m.func(|a: &u8, _| ({p['matcher']}u64 >> *a) & 1 == 1); "
    if p["dbg"] is not None:
        body += f"m.pat_debug(\"(p{p['dbg']})\", \"case.rs\", {p['dbg']}); "
    return f"&|m: &mut Matching<{ty}>| {{ {body}}}"


def rust_ops(ops):
    s = ""
    for o in ops:
        k = o[0]
        if k == "ret": s += f".returns(Val::new(\"r{o[1]}\"))"
        elif k == "retd": s += ".returns_default()"
        elif k == "ans": s += f".answers(&|_, a| Val::new(format!(\"a{o[1]}({{a}})\")))"
        elif k == "pan": s += f".panics(\"boom{o[1]}\")"
        elif k == "unm": s += ".applies_unmocked()"
        elif k == "dfl": s += ".applies_default_impl()"
        elif k == "once": s += ".once()"
        elif k == "n": s += f".n_times({o[1]})"
        elif k == "al": s += f".at_least_times({o[1]})"
        elif k == "then": s += ".then()"
        else: raise ValueError(k)
    return s


def rust_tree(t):
    if t is None:
        return "()"
    if isinstance(t, list):
        return "(" + "".join(rust_tree(x) + ", " for x in t) + ")"
    mid = t["mid"]
    if t["kind"] == "call":
        return f"TMock::m{mid}.{t['opener']}_call({rust_pat(mid, t['pat'])}){rust_ops(t['pat']['ops'])}"
    inner = "".join(f"each.call({rust_pat(mid, p)}){rust_ops(p['ops'])}; " for p in t["pats"])
    return f"TMock::m{mid}.stub(|{'each' if t['pats'] else '_each'}| {{ {inner}}})"


def coq_tree(t):
    if t is None:
        return "CUnit"
    if isinstance(t, list):
        return "CNode [" + "; ".join(coq_tree(x) for x in t) + "]"
    return "CLeaf (" + K.coq_term(t) + ")"


def coq_case(case):
    return (f"KaseT cfg_std {'true' if case['partial'] else 'false'} ({coq_tree(case['tree'])}) "
            f"[{'; '.join(K.coq_event(e) for e in case['events'])}]")


PRELUDE = "From Unimock Require Import Model.RunTree.\nOpen Scope N_scope.\n"


# ---------------------------------------------------------------- generation
def flat_case(n):
    tree = [leaf_call(0, "next", i + 1) for i in range(n)]
    evs = [{"base": ("call", 0, 0, i % 8)} for i in range(n)] + [{"base": ("verify", 0)}]
    return {"partial": False, "tree": tree, "events": evs, "_kind": f"flat{n}"}


def random_tree(rng, fresh, depth_left, max_width):
    n = rng.randint(2, max_width)
    out = []
    for _ in range(n):
        r = rng.random()
        if depth_left > 0 and r < 0.3:
            out.append(random_tree(rng, fresh, depth_left - 1, max(2, max_width // 2)))
        elif r < 0.38:
            out.append(None)
        elif r < 0.68:
            out.append(leaf_call(rng.choice(VAL_MIDS[:3]), "next", fresh(), rng.choice([None, None, 0, 1, 2])))
        elif r < 0.8:
            # an ordered then()-chain: exact counts before then(), the last response unquantified (one more call) or counted
            leaf = leaf_call(rng.choice(VAL_MIDS[:3]), "next", fresh(), rng.choice([1, 2]))
            leaf["pat"]["ops"] += [("then",), ("ret", fresh())] + rng.choice([[], [], [("n", rng.choice([1, 2]))]])
            out.append(leaf)
        else:
            out.append(leaf_call(3, rng.choice(["each", "some"]), fresh(), None if rng.random() < 0.5 else rng.randint(0, 2)))
    return out


def slot_events(rng, ls):
    evs = []
    for t in ls:
        if t["kind"] != "call" or t["opener"] != "next":
            continue
        cnt = leaf_calls(t["pat"]["ops"])
        evs += [{"base": ("call", 0, t["mid"], rng.randrange(8))} for _ in range(cnt)]
    for t in ls:
        if t["kind"] == "call" and t["opener"] in ("each", "some"):
            ops = t["pat"]["ops"]
            cnt = ops[1][1] if len(ops) > 1 else 1
            for _ in range(cnt):
                evs.insert(rng.randint(0, len(evs)), {"base": ("call", 0, t["mid"], rng.randrange(8))})
            break
    evs.append({"base": ("call", 0, rng.choice(VAL_MIDS), 0)})     # one past the end
    evs.append({"base": ("verify", 0)})
    return evs


def nested_case(rng):
    tag = [0]
    def fresh():
        tag[0] += 1
        return tag[0]
    tree = random_tree(rng, fresh, rng.randint(1, 3), rng.choice([3, 4, 6, 9, 16]))
    # unordered clauses on method 3 must not carry two unquantified some_call returns (still fine), keep as is
    return {"partial": rng.random() < 0.2, "tree": tree, "events": slot_events(rng, leaves(tree)), "_kind": "nested"}


def set_leaf(tree, path, new):
    if len(path) == 1:
        tree[path[0]] = new
    else:
        set_leaf(tree[path[0]], path[1:], new)


def leaf_paths(tree, pre=()):
    out = []
    for i, x in enumerate(tree):
        if isinstance(x, list):
            out += leaf_paths(x, pre + (i,))
        elif x is not None:
            out.append(pre + (i,))
    return out


def get_leaf(tree, path):
    return get_leaf(tree[path[0]], path[1:]) if len(path) > 1 else tree[path[0]]


def reject_cases(rng, n_trees):
    out = []
    for _ in range(n_trees):
        tag = [100]
        def fresh():
            tag[0] += 1
            return tag[0]
        base = random_tree(rng, fresh, rng.randint(0, 2), rng.choice([3, 5, 8]))
        paths = leaf_paths(base)
        if len(paths) < 2:
            continue
        for pth in paths:
            for kind in ("conflict", "conflict", "empty_stub", "two"):
                tree = json.loads(json.dumps(base))
                other = rng.choice([q for q in paths if q != pth])
                ol = get_leaf(tree, other)
                flipped = leaf_call(ol["mid"], rng.choice(["each", "some"]) if ol["opener"] == "next" else "next", fresh())
                if kind == "conflict":
                    # the clause at pth gets the OTHER mode of the method of another leaf: depending on which
                    # of the two comes first this is ordered-then-unordered or unordered-then-ordered, at any distance
                    set_leaf(tree, pth, flipped)
                    k = "conflict:" + ("ord_first" if (ol["opener"] == "next") == (other < pth) else "any_first")
                    # every third one (derived from the position, the random stream stays as it was): the UNORDERED one of the two
                    # clauses is written as a non-empty `stub(|each| ..)` of one or two patterns - the stub's patterns reach the
                    # assembler by the same Sink, and the mode comparison must hold for them too, in both orders
                    if len(out) % 3 == 0:
                        def as_stub(leaf):
                            pats = [leaf["pat"]] + ([json.loads(json.dumps(leaf["pat"]))] if len(out) % 2 == 0 else [])
                            return {"kind": "stub", "mid": leaf["mid"], "pats": pats}
                        if ol["opener"] == "next":
                            set_leaf(tree, pth, as_stub(flipped))
                        else:
                            set_leaf(tree, other, as_stub(ol))
                        k = "conflict_stub:" + k.split(":")[1]
                elif kind == "empty_stub":
                    set_leaf(tree, pth, {"kind": "stub", "mid": rng.choice(VAL_MIDS), "pats": []})
                    k = "empty_stub"
                else:
                    set_leaf(tree, pth, {"kind": "stub", "mid": rng.choice(VAL_MIDS), "pats": []})
                    third = rng.choice(paths)
                    if third not in (pth, other):
                        set_leaf(tree, third, flipped)
                    k = "two"
                # every other one is constructed by cleanup code running while the thread unwinds from an unrelated panic: the
                # rejection must not depend on that
                out.append({"partial": rng.random() < 0.3, "tree": tree, "events": [{"base": ("drop", 0)}], "_kind": "reject:" + k,
                            "new_unwinding": len(out) % 2 == 1})
    return out


def gen_cases(rng, tier):
    cases = [flat_case(n) for n in range(2, 17)]
    cases += [nested_case(rng) for _ in range(60 if tier == "quick" else 250)]
    cases += reject_cases(rng, 8 if tier == "quick" else 30)
    return cases


# ---------------------------------------------------------------- running
def write_gen_rs(cases):
    arms = "\n".join(f"        {k} => mk(partial, {rust_tree(c['tree'])})," for k, c in enumerate(cases))
    src = ("// generated by vlib/props/C14.py -- do not edit\n#![allow(unused_parens)]\nuse crate::inventory::*;\n"
           "use unimock::private::Matching;\nuse unimock::*;\n\n"
           "fn mk(partial: bool, c: impl Clause) -> Unimock {\n    if partial { Unimock::new_partial(c) } else { Unimock::new(c) }\n}\n\n"
           "pub fn construct(k: usize, partial: bool) -> Unimock {\n    match k {\n" + arms +
           "\n        _ => panic!(\"no such case\"),\n    }\n}\n")
    path = os.path.join(C.VERIF, "harness", "tuples", "src", "gen.rs")
    if not os.path.exists(path) or open(path).read() != src:
        open(path, "w").write(src)


def harness_line(k, case):
    return " ".join([f"case {k} {k}", ("partial" if case["partial"] else "strict") + ("U" if case.get("new_unwinding") else ""), f"E {len(case['events'])}"]
                    + [K.event_tok(e) for e in case["events"]])


def both(cases):
    write_gen_rs(cases)
    binary = C.build_harness("tuples")
    impl = C.run_harness(binary, [harness_line(k, c) for k, c in enumerate(cases)])
    model = C.coq_eval_cases(PRELUDE, [coq_case(c) for c in cases], shard=20)
    return impl, model


def observed_orders(cases, impl):
    """arity -> visiting order, read off the responses of the flat tuples"""
    tb = {}
    for c, obs in zip(cases, impl):
        if not c["_kind"].startswith("flat"):
            continue
        n = len(c["tree"])
        order = []
        for o in obs[1:1 + n]:
            order.append(int(o[1:]) - 1 if o.startswith("r") and o[1:].isdigit() else None)
        tb[n] = order
    return tb


def check_table(tb):
    """TupleOrderCheck.v: Coq re-checks the observed table and instantiates the theorem with it."""
    if any(x is None for o in tb.values() for x in o) or sorted(tb) != list(range(2, 17)):
        return False, "observed table incomplete: " + json.dumps(tb)
    rows = "; ".join(f"({n}, [{'; '.join(str(i) for i in tb[n])}])" for n in sorted(tb))
    src = ("From Unimock Require Import Model.Tree Spec.Leaves Proofs.C14.\n"
           f"Definition observed : list (nat * list nat) := [(0, []); (1, [0]); {rows}]%nat.\n"
           "Lemma observed_ok : table_ok observed = true.\nProof. vm_compute. reflexivity. Qed.\n"
           "Theorem flatten_observed : forall t, arities_in observed t = true -> flatten (order_of observed) t = leaves t.\n"
           "Proof. exact (flatten_leaves observed observed_ok). Qed.\nPrint Assumptions flatten_observed.\n")
    d = tempfile.mkdtemp(prefix="vtuple")
    try:
        open(os.path.join(d, "TupleOrderCheck.v"), "w").write(src)
        rc, out, err = C.sh(["coqc", "-noglob", "-Q", C.COQ, "Unimock", "TupleOrderCheck.v"], cwd=d, timeout=300)
        ok = rc == 0 and "Closed under the global context" in out
        return ok, (out + err)[-1500:] if not ok else src
    finally:
        shutil.rmtree(d, ignore_errors=True)


def shrink_tree_case(case):
    """smaller variants: drop one element of some tuple (keeping arity >= 2), or one event"""
    out = []
    def variants(t):
        res = []
        if isinstance(t, list):
            if len(t) > 2:
                for i in range(len(t)):
                    res.append(t[:i] + t[i + 1:])
            for i, x in enumerate(t):
                for v in variants(x):
                    res.append(t[:i] + [v] + t[i + 1:])
        return res
    for v in variants(case["tree"]):
        c = dict(case); c["tree"] = v
        out.append(c)
    return out


def run(tier, seed):
    t0 = time.time()
    rng = random.Random(seed)
    obligations = C.proof_obligations("C14", MODULE, THEOREMS)
    cases = gen_cases(rng, tier)
    from .. import rustc_sweep as R
    try:
        impl, model = both(cases)
    except C.CheckFailure as build_failure:
        # the generated crate (or the interpreter it shares) no longer builds: before reporting the broken correspondence, look for
        # a concrete builder program on which rustc and the type-state model disagree (the compile-time half of the property)
        progs, mv, rv = R.sweep()
        type_bad = [k for k in range(len(progs)) if mv[k] != rv[k]]
        if not type_bad:
            raise build_failure
        k = type_bad[0]
        payload = {"property": "C14", "seed": seed, "part": "types",
                   "theorem_or_correspondence": "type-state correspondence: Model/Builder.v bstep/build_call vs rustc (compile-time rejection of at_least_times on ordered chains / then() after a non-exact count); "
                                                "found while the generated crate no longer builds against the current tree",
                   "program": R.describe(progs[k]), "model_says_well_typed": mv[k], "rustc_accepts": rv[k],
                   "case": {"prog": progs[k]}, "disagreements": len(type_bad), "build_failure": build_failure.detail[-1500:]}
        path = C.write_replay("C14", seed, payload)
        C.write_evidence("C14", tier, seed, {"obligations": len(obligations) + 3, "discharged": len(obligations), "theorems": obligations,
                                             "checker_cmd": f"./check C14 --tier {tier}", "trusted_base": C.TRUSTED_BASE,
                                             "builder_programs_checked_against_rustc": len(progs), "evaluations": len(progs),
                                             "distinct_nontrivial": len(progs), "rule": RULE}, time.time() - t0, 1)
        C.violation("C14", path)
        return 1
    tb = observed_orders(cases, impl)
    table_ok, table_info = check_table(tb)
    bad = [i for i, c in enumerate(cases) if proj_kinds(c, impl[i]) != proj_kinds(c, model[i])]
    # compile-time half: the type states of the builder against rustc (C14_no_at_least_on_ordered, C14_then_needs_exact)
    progs, mv, rv = R.sweep()
    type_bad = [k for k in range(len(progs)) if mv[k] != rv[k]]
    distinct = {canon({"t": c["tree"], "e": c["events"], "p": c["partial"]}): c for c in cases}
    nt = sum(1 for c in distinct.values() if depth(c["tree"]) >= 2 or c["_kind"].startswith("reject"))
    dist = collections.Counter(c["_kind"] if not c["_kind"].startswith("flat") else "flat" for c in cases)
    dist.update({"depth=%d" % depth(c["tree"]): 1 for c in cases})
    n_obl = len(obligations) + 3
    cov = {
        "obligations": n_obl,
        "discharged": len(obligations) + (1 if table_ok else 0) + (0 if bad else 1) + (0 if type_bad else 1),
        "builder_programs_checked_against_rustc": len(progs),
        "checker_cmd": f"make -C /verif/coq ; coqc TupleOrderCheck.v (regenerated) ; ./check C14 --tier {tier}",
        "trusted_base": C.TRUSTED_BASE + ["rustc type-checks the generated tuple expressions (harness/tuples/src/gen.rs)"],
        "theorems": obligations + [{"theorem": "TupleOrderCheck.observed_ok + flatten_observed (regenerated from the real impls of arity 2..16)",
                                    "assumptions": "Closed under the global context" if table_ok else "FAILED"}],
        "observed_tuple_orders": {str(k): v for k, v in sorted(tb.items())},
        "correspondence_obligation": "every generated tree: projection(model run in leaves order) = projection(implementation)",
        "evaluations": len(cases), "distinct_nontrivial": nt, "rule": RULE,
        "samples": [{"tree": rust_tree(c["tree"])[:600], "events": [K.event_tok(e) for e in c["events"]]} for c in cases[15:18]],
        "distribution": dict(dist),
    }
    if type_bad and not bad and table_ok:
        k = type_bad[0]
        payload = {"property": "C14", "seed": seed, "part": "types",
                   "theorem_or_correspondence": "type-state correspondence: Model/Builder.v bstep/build_call vs rustc (compile-time rejection of at_least_times on ordered chains / then() after a non-exact count)",
                   "program": R.describe(progs[k]), "model_says_well_typed": mv[k], "rustc_accepts": rv[k],
                   "case": {"prog": progs[k]}, "disagreements": len(type_bad)}
        path = C.write_replay("C14", seed, payload)
        C.write_evidence("C14", tier, seed, cov, time.time() - t0, 1)
        C.violation("C14", path)
        return 1
    if bad or not table_ok:
        if bad:
            i = bad[0]
            case = cases[i]
            # shrink (bounded: every round recompiles the generated crate)
            for _ in range(6 if tier == "quick" else 15):
                cands = shrink_tree_case(case)[:40]
                if not cands:
                    break
                ci, cm = both(cands)
                nxt = next((c for k, c in enumerate(cands) if proj_kinds(c, ci[k]) != proj_kinds(c, cm[k])), None)
                if nxt is None:
                    break
                case = nxt
            ci, cm = both([case])
            payload = {"property": "C14", "seed": seed, "theorem_or_correspondence": "correspondence C14: real tuple expression vs leaves-order model"
                       + ("" if table_ok else " ; TupleOrderCheck.observed_ok no longer checks"),
                       "case": {"partial": case["partial"], "tree": case["tree"], "events": case["events"], "_kind": case["_kind"]},
                       "rust_clause": rust_tree(case["tree"]), "coq_case": coq_case(case),
                       "expected_by_model": cm[0], "observed_on_implementation": ci[0],
                       "observed_tuple_orders": cov["observed_tuple_orders"],
                       "replay_cmd": "./check C14 --replay <this file>"}
            path = C.write_replay("C14", seed, payload)
            C.write_evidence("C14", tier, seed, cov, time.time() - t0, 1)
            C.violation("C14", path)
            return 1
        payload = {"property": "C14", "seed": seed, "theorem_or_correspondence": "TupleOrderCheck.observed_ok (regenerated table of tuple visiting orders)",
                   "detail": table_info, "observed_tuple_orders": cov["observed_tuple_orders"]}
        path = C.write_replay("C14", seed, payload)
        C.write_evidence("C14", tier, seed, cov, time.time() - t0, 1)
        C.violation("C14", path, no_input=True)
        return 1
    # the flattened ordered sequence is ONE sequence also when the ordered calls overlap in time: no terminal clause is used twice
    # and none is skipped, for any interleaving of the atomic operations of 2-3 threads (controlled scheduler, Layer B model)
    from ..layer_b import ConcurrentPart, replay_sched
    def ordered_programs(rng_, tier_):
        progs = []
        for _ in range(8 if tier_ == "quick" else 40):
            n = rng_.randint(2, 4)
            seq = [rng_.choice([0, 2, 4]) for _ in range(n)]
            terms = [{"kind": "call", "mid": m, "opener": "next",
                      "pat": {"matcher": rng_.choice([255, 255, 15]), "dbg": k + 1,
                              "ops": [("ret", k + 1)] + ([("n", 2)] if m != 4 and rng_.random() < 0.3 else [])}} for k, m in enumerate(seq)]
            nth = rng_.choice([2, 2, 3])
            threads = [[(rng_.choice(seq), rng_.choice([0, 1, 5]))] for _ in range(nth)]
            if nth == 2 and rng_.random() < 0.4:
                threads[0].append((rng_.choice(seq), 0))
            progs.append({"partial": False, "terms": terms, "threads": threads, "sched": []})
        return progs
    cn, cpayload, ccov = ConcurrentPart("C14", ordered_programs, "correspondence C14 (concurrent part): overlapping ordered calls consume the flattened clause "
                                        "sequence slot by slot (outcomes and verdict vs the Layer B model, every interleaving)")(rng, tier, seed, [])
    cov.update(ccov)
    cov["obligations"] += 1
    cov["evaluations"] += cn
    if cpayload is not None:
        path = C.write_replay("C14", seed, cpayload)
        C.write_evidence("C14", tier, seed, cov, time.time() - t0, 1)
        C.violation("C14", path)
        return 1
    cov["discharged"] += 1
    C.write_evidence("C14", tier, seed, cov, time.time() - t0, 0,
                     assumptions=["model/implementation agreement is established on the generated trees only"])
    print(f"C14: {len(obligations)} theorems closed; tuple orders of arity 2..16 re-checked; {len(cases)} co-executions + {cn} scheduled ones agree ({time.time()-t0:.1f}s)")
    return 0


def replay(path):
    payload = json.load(open(path))
    if payload.get("part") == "sched":
        from ..layer_b import replay_sched
        return replay_sched("C14", payload, path)
    case = payload.get("case")
    if case is None:
        print("replay file names an obligation, not an input:", payload.get("theorem_or_correspondence"))
        return 1
    if payload.get("part") == "types":
        from .. import rustc_sweep as R
        prog = case["prog"]; prog = (prog[0], prog[1], list(prog[2]), prog[3])
        mv, rv = R.model_verdicts([prog]), R.rustc_verdicts([prog])
        print("program:", R.describe(prog), "model:", mv[0], "rustc:", rv[0])
        if mv[0] != rv[0]:
            C.violation("C14", path); return 1
        print("agree"); return 0
    ci, cm = both([case])
    print("clause :", rust_tree(case["tree"]))
    print("model  :", cm[0])
    print("impl   :", ci[0])
    if proj_kinds(case, ci[0]) != proj_kinds(case, cm[0]):
        C.violation("C14", path)
        return 1
    print("agree on the property's projection")
    return 0

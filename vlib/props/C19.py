"""C19 -- panic messages identify the call, its arguments and the pattern involved.

Generated Rust programs (traits of arity 0-5 over the parameter-class grammar, `matching!`
invocations at generator-controlled lines, clause setups for every mock-induced error kind,
argument tuples over a finite domain) are compiled against the real macros and run; the same
cases are evaluated by the Coq model (Macro/Messages.v: run19).  Both sides are reduced to the
components the property talks about (call path, argument list, pattern text, file:line /
pattern index, mismatch positions and values) and compared -- never whole messages."""
import collections, json, os, random, re, time
from .. import common as C

MODULE = "Props.C19"
THEOREMS = ["C19_names_the_method", "C19_which_errors_render_the_call", "C19_renders_the_call",
            "C19_arguments_in_declaration_order", "C19_argument_i_is_parameter_i", "C19_separators",
            "C19_deref_chain_reaches_the_value", "C19_pattern_is_named", "C19_pattern_text",
            "C19_mismatch_positions", "C19_mismatch_positions_independent", "C19_mismatch_values",
            "C19_instantiation", "C19_verification_lines", "C19_core_rendering", "C19_impossible_keeps_its_position", "C19_identical_debug_texts", "C19_nonvacuous"]

RULE = ("one generated trait per case: method m of arity 0..5 whose parameter types are drawn from the class grammar "
        "(i32/String/str/Option<i32>/non-Debug enum/generic T/generic U: Debug, behind 0-3 `&`, `&mut`, slices; and `&mut Lt<'_>`, the Impossible class) plus a "
        "parameterless method aux; 1-3 matching! invocations per case (literals, ranges, or-patterns, bindings, x @ p, &p, (p), "
        "paths, Some(p), slice patterns with rest, eq!/ne!, wildcards; comma form, parenthesised alternatives, constant guards) "
        "written on generator-chosen lines of src/gen.rs, some spread over several lines; a clause setup for each error kind "
        "(NoMockImplementation, NoMatchingCallPatterns with 1-3 patterns, InputsNotMatchedInCallOrder, NoOutputAvailable, "
        "ExplicitPanic, CallOrderNotMatched with and without expected pattern and at every slot of an n_times(k) pattern in line, CannotReturnValueMoreThanOnce, NoMatcherFunction "
        "by index and by hand-registered pat_debug, CannotUnmock, NoDefaultImpl, verification lines, MockNeverCalled; a second error after a first one "
        "that the caller caught); module and flattened api forms; argument "
        "tuples searched in the finite domain so that they fail (or match) as the kind needs.  Compared projection: class of "
        "panic, Trait::method, argument renderings in order, pattern path/text/file/line or index, per mismatch (pattern index "
        "if shown, position, actual value); verification lines as a multiset.  distinct = canonical JSON of the case; "
        "non-trivial = the message names a pattern or lists at least one mismatch, and arity >= 1")

FILE = "src/gen.rs"

# ================================================================ grammar: types

def TB(b): return ("B", b)
def TR(m, t): return ("R", m, t)
def TS(t): return ("S", t)

RUST_BASE = {"Int": "i32", "Str": "str", "String": "String", "Nd": "Nd", "Opt": "Option<i32>", "Gen": "T", "GenD": "U",
             "Amb": "Amb",      # a user struct whose hand-written Debug shows only its first field; PartialEq (derived) compares both
             "ImpD": "impl std::fmt::Debug + 'static",      # argument-position impl Trait with a Debug bound: the model's class is that of U: Debug
             "Imp": "&mut Lt<'_>"}     # the whole parameter type: a unique borrow of a type with a lifetime = the macro's Impossible class


def rust_ty(t):
    if t[0] == "B": return RUST_BASE[t[1]]
    if t[0] == "R": return ("&mut " if t[1] else "&") + rust_ty(t[2])
    return "[" + rust_ty(t[1]) + "]"


def coq_ty(t):
    if t[0] == "B": return "(TB BGenD)" if t[1] == "ImpD" else f"(TB B{t[1]})"
    if t[0] == "R": return f"(TRef {'true' if t[1] else 'false'} {coq_ty(t[2])})"
    return f"(TSlice {coq_ty(t[1])})"


def core(t):
    while t[0] == "R":
        t = t[2]
    return t


def ty_class(t):
    d, m, x = 0, False, t
    while x[0] == "R":
        d += 1
        m = m or x[1]
        x = x[2]
    c = ("slice:" + x[1][1] if x[1][0] == "B" else "slice:ref") if x[0] == "S" else x[1]
    return f"{'&' * d}{'mut ' if m else ''}{c}"


def refs(n, t, mut_inner=False):
    if mut_inner:
        t = TR(True, t)
        n -= 1
    for _ in range(n):
        t = TR(False, t)
    return t


TYPE_POOL = (
    [refs(n, TB("Int")) for n in (0, 0, 0, 0, 0, 1, 2, 3)] + [refs(n, TB("Int"), True) for n in (1, 1, 2)]
    + [refs(n, TB("Str")) for n in (1, 1, 2)] + [refs(1, TB("Str"), True)]
    + [refs(n, TB("String")) for n in (0, 1)] + [refs(1, TB("String"), True)]
    + [refs(n, TB("Nd")) for n in (0, 1, 2)] + [refs(1, TB("Nd"), True)]
    + [refs(n, TB("Opt")) for n in (0, 0, 0, 0, 0, 1, 1)]
    + [refs(n, TB("Gen")) for n in (0, 1)] + [refs(1, TB("Gen"), True)]
    + [refs(n, TB("GenD")) for n in (0, 1, 2)]
    + [TR(False, TS(TB(b))) for b in ("Int", "Int", "Nd", "Gen", "GenD")] + [TR(True, TS(TB("Int")))]
    + [TR(False, TS(TR(False, TB("Int"))))]
    + [TB("Imp"), TB("Imp")]
    + [TB("ImpD"), TB("ImpD")]
    + [TB("Amb"), TB("Amb"), TB("Amb")]
)

# ---- mirror of Macro/Debug.v (used only to steer generation away from programs rustc rejects)

def knows_debug(t):
    if t[0] == "B": return t[1] not in ("Nd", "Gen")
    return knows_debug(t[2] if t[0] == "R" else t[1])


def sized(t):
    return t[1] != "Str" if t[0] == "B" else t[0] == "R"


def resolve(t):
    def probe(s):
        p = sized(s) and knows_debug(s)
        n = s[0] == "R" and not s[1] and sized(s[2])
        return "amb" if p and n else "proper" if p else "nodebug" if n else None
    r = probe(t[2]) if t[0] == "R" and not t[1] else None
    return r or probe(t) or "nomethod"


# ================================================================ grammar: values

DOM_INT = [0, 1, 2, 3, 4, 5]
DOM_STR = ["", "a", "ab", "b", "it's", "gr\u00fc\u00dfe"]     # an apostrophe and non-ASCII letters: neither Debug nor the pattern text escapes them


def gen_value(rng, t):
    c = core(t)
    if c[0] == "S":
        return ("L", [gen_value(rng, c[1]) for _ in range(rng.choice([0, 1, 1, 2, 2, 3]))])
    b = c[1]
    if b in ("Int", "Gen", "GenD", "Imp", "ImpD"): return ("I", rng.choice(DOM_INT))
    if b == "Amb": return ("A", rng.randrange(8))          # fields (k / 4, k mod 4)
    if b in ("Str", "String"): return ("Str", rng.choice(DOM_STR))
    if b == "Nd": return ("C", rng.choice("AB"), [])
    return rng.choice([("C", "None", []), ("C", "Some", [("I", rng.choice(DOM_INT[:3]))])])


def rust_val(t, v):
    """an expression of type t denoting v"""
    if t[0] == "R":
        inner = t[2]
        if inner == TB("Str"):
            return f'String::from("{v[1]}").as_mut_str()' if t[1] else f'"{v[1]}"'
        if inner[0] == "S":
            return ("&mut [" if t[1] else "&[") + ", ".join(rust_val(inner[1], x) for x in v[1]) + "]"
        return ("&mut " if t[1] else "&") + rust_val(inner, v)
    b = t[1]
    if b in ("Int", "Gen", "GenD", "ImpD"): return str(v[1])
    if b == "Imp": return f"&mut Lt({v[1]}, std::marker::PhantomData)"
    if b == "Amb": return f"Amb({v[1] // 4}, {v[1] % 4})"
    if b == "String": return f'"{v[1]}".to_string()'
    if b == "Nd": return "Nd::" + v[1]
    return "None" if v[1] == "None" else f"Some({v[2][0][1]})"


def coq_str(s):
    return '"' + s.replace('"', '""') + '"'


def coq_val(v):
    if v[0] == "I": return f"(VInt {v[1]})"
    if v[0] == "A": return f"(VCon \"Amb\" [VInt {v[1] // 4}; VInt {v[1] % 4}])"
    if v[0] == "Str": return f"(VStr {coq_str(v[1])})"
    if v[0] == "C": return f"(VCon {coq_str(v[1])} [{'; '.join(coq_val(x) for x in v[2])}])"
    return f"(VList [{'; '.join(coq_val(x) for x in v[1])}])"


# ================================================================ grammar: sub-patterns

def rust_pat(p):
    k = p[0]
    if k == "wild": return "_"
    if k == "bind": return p[1]
    if k == "bindat": return f"{p[1]} @ {rust_pat(p[2])}"
    if k == "lit": return str(p[1])
    if k == "str": return f'"{p[1]}"'
    if k == "range": return f"{p[1]}{'..=' if p[3] else '..'}{p[2]}"
    if k == "or": return " | ".join(rust_pat(q) for q in p[1])
    if k == "paren": return f"({rust_pat(p[1])})"
    if k == "ref": return "&" + rust_pat(p[1])
    if k == "path": return p[1] + p[2]
    # (lists of two or more elements are written with a TRAILING comma, rustfmt style: the pattern's name in messages has none)
    if k == "ts": return f"{p[1]}({', '.join(rust_pat(q) for q in p[2])}{',' if len(p[2]) >= 2 else ''})"
    if k == "slice":
        items = [rust_pat(q) for q in p[1]] + ([".."] if p[2] else []) + [rust_pat(q) for q in p[3]]
        return "[" + ", ".join(items) + ("," if len(items) >= 2 and len(items) % 2 == 0 else "") + "]"
    if k == "cmp": return f"{'ne' if p[1] else 'eq'}!(&{p[2]})"
    if k == "cmpa": return f"{'ne' if p[1] else 'eq'}!(&Amb({p[2] // 4}, {p[2] % 4}))"
    raise ValueError(k)


def coq_pat(p):
    k = p[0]
    L = lambda ps: "[" + "; ".join(coq_pat(q) for q in ps) + "]"
    if k == "wild": return "SWild"
    if k == "bind": return f"(SBind {coq_str(p[1])})"
    if k == "bindat": return f"(SBindAt {coq_str(p[1])} {coq_pat(p[2])})"
    if k == "lit": return f"(SLit {p[1]})"
    if k == "str": return f"(SLitStr {coq_str(p[1])})"
    if k == "range": return f"(SRange {p[1]} {p[2]} {'true' if p[3] else 'false'})"
    if k == "or": return f"(SOr {L(p[1])})"
    if k == "paren": return f"(SParen {coq_pat(p[1])})"
    if k == "ref": return f"(SRef {coq_pat(p[1])})"
    if k == "path": return f"(SPath {coq_str(p[2])})"
    if k == "ts": return f"(STS {coq_str(p[1])} {L(p[2])})"
    if k == "slice": return f"(SSlice {L(p[1])} {'true' if p[2] else 'false'} {L(p[3])})"
    if k in ("cmp", "cmpa"): return f"(SCmp {'true' if p[1] else 'false'} {p[2]})"
    raise ValueError(k)


def pat_kind(p):
    if p[0] == "str": return "litstr"
    if p[0] == "slice": return "slice"
    if p[0] == "or":
        ks = {pat_kind(q) for q in p[1]}
        return ks.pop() if len(ks) == 1 else "unknown"
    return "unknown"


def arg_expr_type(kind, t):
    if kind == "litstr": return TR(False, TB("Str"))
    if kind == "slice": return TR(False, TS(core(t)[1] if core(t)[0] == "S" else core(t)))
    return TR(False, t)


def inst(t):
    if t[0] == "B": return ("B", "Int") if t[1] in ("Gen", "GenD", "ImpD") else t
    return ("R", t[1], inst(t[2])) if t[0] == "R" else ("S", inst(t[1]))


def stmt_compiles(kind, t, p):
    t = inst(t)            # the closure is type-checked where the clause is written: generics are instantiated
    if p[0] == "wild": return True
    if p[0] in ("lit", "str"): return True
    return resolve(arg_expr_type(kind, t)) in ("proper", "nodebug")


def accepts(p, v):
    """mirror of Macro/Diag.v accepts -- only used to search for failing / matching tuples"""
    k = p[0]
    if k in ("wild", "bind"): return True
    if k in ("bindat",): return accepts(p[2], v)
    if k in ("paren", "ref"): return accepts(p[1], v)
    if k == "lit": return v[0] == "I" and v[1] == p[1]
    if k == "str": return v[0] == "Str" and v[1] == p[1]
    if k == "range": return v[0] == "I" and p[1] <= v[1] and (v[1] <= p[2] if p[3] else v[1] < p[2])
    if k == "or": return any(accepts(q, v) for q in p[1])
    if k == "path": return v[0] == "C" and v[1] == p[2] and not v[2]
    if k == "ts": return v[0] == "C" and v[1] == p[1] and len(v[2]) == len(p[2]) and all(accepts(q, w) for q, w in zip(p[2], v[2]))
    if k == "slice":
        if v[0] != "L": return False
        vs, n = v[1], len(v[1])
        if (len(p[1]) + len(p[3]) > n) if p[2] else (len(p[1]) + len(p[3]) != n): return False
        return all(accepts(q, w) for q, w in zip(p[1], vs[:len(p[1])])) and all(accepts(q, w) for q, w in zip(p[3], vs[n - len(p[3]):]))
    if k == "cmp": return v[0] == "I" and ((v[1] != p[2]) if p[1] else (v[1] == p[2]))
    if k == "cmpa":
        if v[0] != "A": return False
        return (v[1] // 4 != p[2] // 4) if p[1] else (v[1] // 4 == p[2] // 4 and v[1] % 4 <= p[2] % 4)
    raise ValueError(k)


def pat_shape(p):
    return p[0] if p[0] not in ("or", "paren", "ref", "bindat") else p[0] + ":" + (pat_shape(p[1][0]) if p[0] == "or" else pat_shape(p[2] if p[0] == "bindat" else p[1]))


def gen_subpat(rng, t, fresh, refutable_bias=0.75):
    """a sub-pattern that type-checks against a parameter of type t (incl. its diagnostics statement)"""
    c = core(t)
    owned = t[0] == "B"
    opts = []
    if t == TB("Imp"):
        return ("wild",)        # the input is `Impossible`: only `_` can be written for it
    if c[0] == "S":
        e = c[1]
        def elem():
            if e == TB("Int") and rng.random() < 0.7: return ("lit", rng.choice(DOM_INT))
            return ("wild",)
        rest = rng.random() < 0.6
        pre = [elem() for _ in range(rng.choice([0, 1, 1, 2]))]
        post = [elem() for _ in range(rng.choice([0, 0, 1]))] if rest else []
        opts = [("slice", pre, rest, post)] * 3
    else:
        b = c[1]
        if b == "Int":
            lit = lambda: ("lit", rng.choice(DOM_INT))
            lo = rng.choice(DOM_INT[:4])
            rg = ("range", lo, lo + rng.choice([1, 2]), rng.random() < 0.6)
            opts = [lit(), lit(), rg, ("or", [("lit", 0), ("lit", rng.choice(DOM_INT[1:]))]), ("paren", ("or", [lit(), ("lit", 5)])),
                    ("bindat", fresh(), rng.choice([lit(), rg])), ("paren", lit())]
            if owned:
                opts += [("ref", lit()), ("cmp", False, rng.choice(DOM_INT)), ("cmp", True, rng.choice(DOM_INT))]
        elif b == "Amb":
            # only eq!/ne! (and `_`, bindings) are written for it; operands whose Debug text coincides with the argument's although they differ
            if owned:
                opts = [("cmpa", False, rng.randrange(8)), ("cmpa", False, rng.randrange(8)), ("cmpa", True, rng.randrange(8))]
        elif b in ("Str", "String"):
            s = lambda: ("str", rng.choice(DOM_STR))
            opts = [s(), s(), ("or", [("str", "a"), ("str", rng.choice(["", "ab", "b"]))])]
        elif b == "Nd":
            opts = [("path", "Nd::", rng.choice("AB")), ("path", "Nd::", "A")]
        elif b == "Opt":
            # the bare unit variant `None` parses as an identifier pattern, but it is refutable
            opts = [("path", "", "None"), ("path", "", "None"), ("path", "", "None"),
                    ("ts", "Some", [("lit", rng.choice(DOM_INT[:3]))]), ("ts", "Some", [("wild",)]),
                    ("ts", "Some", [("range", 0, 1, True)]), ("or", [("path", "", "None"), ("ts", "Some", [("lit", 0)])])]
    irrefutable = [("wild",), ("wild",), ("bind", fresh())]
    cands = (opts if rng.random() < refutable_bias and opts else irrefutable)
    rng.shuffle(cands)
    for p in cands + [("wild",)]:
        if stmt_compiles(pat_kind(p), t, p):
            return p
    return ("wild",)


# ================================================================ matching! inputs

def gen_input(rng, sig, style=None):
    """{'alts': [[sub-pattern per position]], 'guard': None|bool, 'multiline': bool}"""
    n = len(sig)
    ctr = [0]
    def fresh():
        ctr[0] += 1
        return "x%d" % ctr[0]
    if n == 0:
        return {"alts": [], "guard": None, "multiline": rng.random() < 0.2}
    style = style or rng.choices(["single", "alts", "guard"], [0.8, 0.12, 0.08])[0]
    k = 1 if style != "alts" else 2      # `(a) | (b) | (c)` is rejected by the macro ("Expected tuple")
    alts = [[gen_subpat(rng, t, fresh) for t in sig] for _ in range(k)]
    if k > 1:
        # the diagnostics statements are those of the LAST alternative with the kinds guessed over ALL of them
        kinds = [guess_kind(i, alts) for i in range(n)]
        if not all(stmt_compiles(kinds[i], sig[i], alts[-1][i]) for i in range(n)):
            alts = alts[-1:]          # fall back to one alternative
    guard = (rng.random() < 0.7) if style == "guard" else None
    return {"alts": alts, "guard": guard, "multiline": rng.random() < 0.25}


def guess_kind(i, alts):
    res, conflicting = "unknown", False
    for a in alts:
        nxt = pat_kind(a[i])
        if res == "unknown": res = nxt
        elif nxt == "unknown": pass
        elif res != nxt: conflicting = True
    return "unknown" if conflicting else res


def rust_input(inp):
    if not inp["alts"]:
        return ""
    tup = lambda a: "(" + ", ".join(rust_pat(p) for p in a) + ")"
    if len(inp["alts"]) == 1 and inp["guard"] is None:
        return ", ".join(rust_pat(p) for p in inp["alts"][0])
    s = " | ".join(tup(a) for a in inp["alts"])
    if inp["guard"] is not None:
        s += " if " + ("true" if inp["guard"] else "false")
    return s


def coq_input(inp):
    alts = "; ".join("[" + "; ".join(coq_pat(p) for p in a) + "]" for a in inp["alts"])
    g = "None" if inp["guard"] is None else f"(Some {'true' if inp['guard'] else 'false'})"
    return f"{{| mi_alts := [{alts}]; mi_guard := {g} |}}"


def input_accepts(inp, vs):
    if not inp["alts"]:
        return True
    if inp["guard"] is False:
        return False
    return any(len(a) == len(vs) and all(accepts(p, v) for p, v in zip(a, vs)) for a in inp["alts"])


# ================================================================ cases

def search_tuple(rng, sig, want, tries=60):
    """argument tuple with want(vs) true, or None"""
    for _ in range(tries):
        vs = [gen_value(rng, t) for t in sig]
        if want(vs):
            return vs
    return None


def failing_tuple(rng, sig, inputs):
    """fails every input; prefers tuples that leave some positions matching (so that listed != all)"""
    best = None
    for _ in range(40):
        vs = [gen_value(rng, t) for t in sig]
        if any(input_accepts(i, vs) for i in inputs):
            continue
        last = inputs[-1]["alts"][-1] if inputs[-1]["alts"] else []
        nfail = sum(1 for p, v in zip(last, vs) if not accepts(p, v))
        score = (0 < nfail < len(sig), rng.random())
        if best is None or score > best[0]:
            best = (score, vs)
    return best[1] if best else None


SCENARIOS = ["no_impl", "no_match", "no_match", "inorder_mismatch", "inorder_mismatch", "inorder_mismatch", "no_output",
             "explicit_panic", "out_of_range", "wrong_order", "more_than_once", "no_matcher", "cannot_unmock",
             "no_default", "verify", "verify_counts", "partial_unmock", "two_errors"]


def gen_sig(rng, n):
    return [rng.choice(TYPE_POOL) for _ in range(n)]


def mk_pat(inp):
    return {"kind": "matching", "input": inp, "line": None}


def gen_case(rng, scenario, arity):
    sig = gen_sig(rng, arity)
    ret_nc = scenario == "more_than_once"
    case = {"sig": sig, "ret_nc": ret_nc, "pats": [], "partial": False, "clauses": [], "calls": [], "verify": True,
            "scenario": scenario, "pad": [rng.randint(0, 3) for _ in range(4)]}
    pats = case["pats"]
    def add(inp):
        pats.append(mk_pat(inp))
        return len(pats) - 1
    def clause(mid, opener, pid, ops):
        return {"mid": mid, "opener": opener, "pats": [{"pid": pid, "ops": ops}]}
    ret = [("ret", 1)]
    anyvals = lambda: [gen_value(rng, t) for t in sig]
    aux_in = {"alts": [], "guard": None, "multiline": False}

    if scenario == "no_impl":
        if rng.random() < 0.5:
            case["clauses"].append(clause(1, "each", add(aux_in), ret))
        case["calls"] = [(0, anyvals())]
    elif scenario in ("no_match", "partial_unmock"):
        k = rng.choice([1, 1, 2, 3]) if arity else 1
        inputs = [gen_input(rng, sig, "single" if rng.random() < 0.75 else None) for _ in range(k)]
        if arity == 0:
            inputs = [{"alts": [], "guard": None, "multiline": False}]
        vs = failing_tuple(rng, sig, inputs) if arity else None
        if rng.random() < 0.3 and k > 1:
            case["clauses"].append({"mid": 0, "opener": "stub", "pats": [{"pid": add(i), "ops": ret} for i in inputs]})
        else:
            for i in inputs:
                case["clauses"].append(clause(0, rng.choice(["each", "some"]), add(i), ret))
        if vs is None:       # nothing fails (e.g. all wildcards / arity 0): the call matches, verification decides
            vs = anyvals()
        pre = search_tuple(rng, sig, lambda w: input_accepts(inputs[0], w)) if rng.random() < 0.3 else None
        case["calls"] = ([(0, pre)] if pre is not None else []) + [(0, vs)]
        case["partial"] = scenario == "partial_unmock"
    elif scenario == "inorder_mismatch":
        inp = gen_input(rng, sig, "single" if rng.random() < 0.8 else None)
        vs = failing_tuple(rng, sig, [inp]) if arity else None
        case["clauses"].append(clause(0, "next", add(inp), ret + ([("n", 2)] if rng.random() < 0.3 else [])))
        case["calls"] = [(0, vs if vs is not None else anyvals())]
    elif scenario in ("no_output", "explicit_panic", "cannot_unmock", "no_default", "out_of_range", "more_than_once"):
        inp = gen_input(rng, sig)
        vs = search_tuple(rng, sig, lambda w: input_accepts(inp, w)) or anyvals()
        pid = add(inp)
        if scenario == "no_output":
            extra = [{"pid": add(gen_input(rng, sig)), "ops": ret}] if rng.random() < 0.4 else []
            case["clauses"].append({"mid": 0, "opener": "stub", "pats": [{"pid": pid, "ops": []}] + extra})
            case["calls"] = [(0, vs)]
        elif scenario == "explicit_panic":
            case["clauses"].append(clause(0, rng.choice(["each", "next"]), pid, [("pan", rng.randint(0, 9))]))
            case["calls"] = [(0, vs)]
        elif scenario == "cannot_unmock":
            case["clauses"].append(clause(0, "each", pid, [("unm",)]))
            case["calls"] = [(0, vs)]
        elif scenario == "no_default":
            case["clauses"].append(clause(0, "each", pid, [("dfl",)]))
            case["calls"] = [(0, vs)]
        elif scenario == "out_of_range":
            case["clauses"].append(clause(0, "next", pid, ret))
            vs2 = search_tuple(rng, sig, lambda w: input_accepts(inp, w)) or vs
            case["calls"] = [(0, vs), (0, vs2 if rng.random() < 0.5 else anyvals())]
        else:
            case["clauses"].append(clause(0, "some", pid, ret))
            vs2 = search_tuple(rng, sig, lambda w: input_accepts(inp, w)) or vs
            case["calls"] = [(0, vs), (0, vs2)]
    elif scenario == "wrong_order":
        # the pattern in line may cover several calls (n_times(k)) of which some, but not all, have been made: the expected
        # pattern must be named at every slot of its range, not only at the first
        inp = gen_input(rng, sig)
        ka, kb = rng.choice([1, 1, 2, 3]), rng.choice([1, 1, 2, 3])
        a = clause(1, "next", add(aux_in), ret + ([("n", ka)] if ka > 1 else []))
        b = clause(0, "next", add(inp), ret + ([("n", kb)] if kb > 1 else []))
        ok = search_tuple(rng, sig, lambda w: input_accepts(inp, w))
        if rng.random() < 0.5:
            case["clauses"] = [a, b]
            case["calls"] = [(1, [])] * rng.randint(0, ka - 1) + [(0, anyvals())]
        else:
            case["clauses"] = [b, a]
            case["calls"] = [(0, ok)] * (rng.randint(0, kb - 1) if ok is not None else 0) + [(1, [])]
    elif scenario == "no_matcher":
        variant = rng.choice(["index0", "index1", "manual"])
        if variant == "manual":
            pats.append({"kind": "manual", "text": rng.choice(["(custom)", "(a, b) if {guard}", "[anything at all]"]), "file": rng.choice(["elsewhere.rs", "src/other.rs"]),
                         "line": rng.randint(1, 9999)})
            case["clauses"].append(clause(0, rng.choice(["each", "next"]), 0, ret))
            case["calls"] = [(0, anyvals())]
        elif variant == "index0" or arity == 0:
            case["clauses"].append(clause(0, rng.choice(["each", "next"]), None, ret))
            case["calls"] = [(0, anyvals())]
        else:
            inp = gen_input(rng, sig, "single")
            vs = failing_tuple(rng, sig, [inp]) or anyvals()
            case["clauses"] = [clause(0, "each", add(inp), ret), clause(0, "each", None, ret)]
            case["calls"] = [(0, vs)]
    elif scenario == "two_errors":
        # a first mock-induced panic is caught by the caller, a second, different one is the observed panic: it must be about ITS call
        inp = gen_input(rng, sig, "single" if rng.random() < 0.7 else None)
        vs = failing_tuple(rng, sig, [inp]) if arity else None
        case["clauses"].append(clause(0, "each", add(inp), ret))
        if vs is None:
            case["calls"] = [(1, [])]                       # nothing about m can fail: the plain unmentioned-method case
        elif rng.random() < 0.5:
            case["calls"] = [(0, vs), (1, [])]              # m unmatched (caught), then aux unmentioned
            case["swallow"] = True
        else:
            vs2 = failing_tuple(rng, sig, [inp]) or vs
            case["calls"] = [(1, []), (0, vs2)] if rng.random() < 0.6 else [(0, vs), (1, []), (0, vs2)]
            case["swallow"] = True
    elif scenario == "verify":
        inp = gen_input(rng, sig)
        case["clauses"].append(clause(0, rng.choice(["next", "next", "some"]), add(inp), ret))
        if rng.random() < 0.5:
            case["clauses"].append(clause(1, "next", add(aux_in), ret))
            if rng.random() < 0.5:
                case["clauses"].reverse()
        case["calls"] = []
    elif scenario == "verify_counts":
        inp = gen_input(rng, sig)
        vs = search_tuple(rng, sig, lambda w: input_accepts(inp, w))
        q = rng.choice([("n", 2), ("n", 3), ("al", 2)])
        case["clauses"].append(clause(0, "each", add(inp), ret + [q]))
        case["calls"] = [(0, vs)] if vs is not None else []
    else:
        raise ValueError(scenario)
    return case


def gen_cases(rng, tier):
    n = 400 if tier == "quick" else 1500
    cases = []
    # every scenario at every arity first, then random
    grid = [(s, a) for s in sorted(set(SCENARIOS)) for a in range(6)]
    rng.shuffle(grid)
    for s, a in grid[: (90 if tier == "quick" else len(grid))]:
        cases.append(gen_case(rng, s, a))
    while len(cases) < n:
        cases.append(gen_case(rng, rng.choice(SCENARIOS), rng.choice([1, 2, 2, 3, 3, 4, 5])))
    return cases


# ================================================================ rendering: Rust

def uses_generics(sig):
    def g(t):
        return t[1] in ("Gen", "GenD") if t[0] == "B" else g(t[2] if t[0] == "R" else t[1])
    return any(g(t) for t in sig)


def rust_ops(ops, ret_nc):
    s = ""
    for o in ops:
        k = o[0]
        if k == "ret": s += ".returns(NC(1))" if ret_nc else ".returns(1)"
        elif k == "pan": s += f".panics(\"boom{o[1]}\")"
        elif k == "unm": s += ".applies_unmocked()"
        elif k == "dfl": s += ".applies_default_impl()"
        elif k == "n": s += f".n_times({o[1]})"
        elif k == "al": s += f".at_least_times({o[1]})"
        else: raise ValueError(k)
    return s


class Emitter:
    def __init__(self):
        self.lines = []

    def emit(self, text=""):
        self.lines.append(text)

    @property
    def next_line(self):
        return len(self.lines) + 1


def emit_matcher(em, case, pid, indent, prefix, suffix):
    """writes `prefix <matcher> suffix`, recording the line of the matching! token"""
    if pid is None:
        em.emit(f"{indent}{prefix}&|_m| {{}}{suffix}")
        return
    p = case["pats"][pid]
    if p["kind"] == "manual":
        em.emit(f"{indent}{prefix}&|m| {{ m.pat_debug({json.dumps(p['text'])}, {json.dumps(p['file'])}, {p['line']}); }}{suffix}")
        return
    inp = p["input"]
    if inp["multiline"]:
        em.emit(f"{indent}{prefix}")
        p["line"] = em.next_line
        em.emit(f"{indent}    matching!(")
        em.emit(f"{indent}        {rust_input(inp)}")
        em.emit(f"{indent}    ){suffix}")
    else:
        p["line"] = em.next_line
        em.emit(f"{indent}{prefix}matching!({rust_input(inp)}){suffix}")


def emit_case(em, k, case):
    sig = case["sig"]
    gen = uses_generics(sig)
    tname = f"Tr{k}"
    params = "".join(f", a{i}: {rust_ty(t)}" for i, t in enumerate(sig))
    ret = "NC" if case["ret_nc"] else "i32"
    flat = k % 3 == 2          # every third trait uses the flattened api form: the MockFn types get names of their own
    em.emit(f"#[unimock(api=[{tname}m, {tname}aux])]" if flat else f"#[unimock(api={tname}Mock)]")
    # the bounds of the trait's type parameters are written inline or in a `where` clause (every other generic trait): the
    # generated MockFn impl must carry them either way, since debug_inputs picks Debug / `?` by the bounds in scope
    if gen and k % 2 == 1:
        em.emit(f"pub trait {tname}<T, U> where T: 'static, U: 'static + std::fmt::Debug {{")
    else:
        em.emit(f"pub trait {tname}{'<T: 0, U: 0 + std::fmt::Debug>'.replace('0', chr(39) + 'static') if gen else ''} {{")
    em.emit(f"    fn m(&self{params}) -> {ret};")
    em.emit(f"    fn aux(&self) -> i32;")
    em.emit("}")
    for _ in range(case["pad"][0]):
        em.emit("// pad")
    em.emit(f"fn case{k}() {{")
    # argument-position `impl Debug` parameters become further type parameters of the method's MockFn (after the trait's own)
    n_imp = sum(1 for t in sig if t == TB("ImpD"))
    wts = {1: (".with_types::<i32, i32>()" if gen else ""),
           0: (".with_types::<" + ", ".join(["i32"] * ((2 if gen else 0) + n_imp)) + ">()") if (gen or n_imp) else ""}
    names = []
    for ci, c in enumerate(case["clauses"]):
        wt = wts[0 if c["mid"] == 0 else 1]
        mock = (f"{tname}{'m' if c['mid'] == 0 else 'aux'}{wt}" if flat else f"{tname}Mock::{'m' if c['mid'] == 0 else 'aux'}{wt}")
        rnc = case["ret_nc"] and c["mid"] == 0
        for _ in range(case["pad"][1 + ci % 3] if ci else 0):
            em.emit("")
        if c["opener"] == "stub":
            em.emit(f"    let c{ci} = {mock}.stub(|each| {{")
            for sp in c["pats"]:
                emit_matcher(em, case, sp["pid"], "        ", "each.call(", f"){rust_ops(sp['ops'], rnc)};")
            em.emit("    });")
        else:
            sp = c["pats"][0]
            emit_matcher(em, case, sp["pid"], "    ", f"let c{ci} = {mock}.{c['opener']}_call(", f"){rust_ops(sp['ops'], rnc)};")
        names.append(f"c{ci}")
    ctor = "Unimock::new_partial" if case["partial"] else "Unimock::new"
    tup = "()" if not names else names[0] if len(names) == 1 else "(" + ", ".join(names) + ")"
    em.emit(f"    let u = {ctor}({tup});")
    q = f"<Unimock as {tname}{'<i32, i32>' if gen else ''}>"
    for ci_, (mid, vs) in enumerate(case["calls"]):
        if mid == 0:
            args = "".join(", " + rust_val(t, v) for t, v in zip(sig, vs))
            stmt = f"let _ = {q}::m(&u{args});"
        else:
            stmt = f"let _ = {q}::aux(&u);"
        if case.get("swallow") and ci_ + 1 < len(case["calls"]):
            stmt = f"let _ = std::panic::catch_unwind(std::panic::AssertUnwindSafe(|| {{ {stmt} }}));"
        em.emit("    " + stmt)
    em.emit("    drop(u);")
    em.emit("}")
    em.emit()


def render_gen_rs(cases):
    em = Emitter()
    em.emit("// generated by vlib/props/C19.py -- do not edit")
    em.emit("use unimock::*;")
    em.emit("#[derive(Clone, Copy, PartialEq)]")
    em.emit("pub enum Nd { A, B }")
    em.emit("#[derive(Clone, Copy)]")
    em.emit("pub struct Amb(pub i32, pub i32);")
    em.emit("// deliberately NOT symmetric: a == b iff the shown fields agree and a.1 <= b.1 (the matcher must evaluate `argument == operand`)")
    em.emit("impl PartialEq for Amb { fn eq(&self, other: &Amb) -> bool { self.0 == other.0 && self.1 <= other.1 } "
            "#[allow(clippy::partialeq_ne_impl)] fn ne(&self, other: &Amb) -> bool { self.0 != other.0 } }")
    em.emit("impl std::fmt::Debug for Amb { fn fmt(&self, f: &mut std::fmt::Formatter<'_>) -> std::fmt::Result { write!(f, \"Amb({})\", self.0) } }")
    em.emit("pub struct Lt<'a>(pub i32, pub std::marker::PhantomData<&'a mut ()>);")
    em.emit("pub struct NC(pub i32);")
    em.emit()
    for k, c in enumerate(cases):
        emit_case(em, k, c)
    em.emit("pub fn run_case(k: usize) {")
    em.emit("    match k {")
    for k in range(len(cases)):
        em.emit(f"        {k} => case{k}(),")
    em.emit("        _ => panic!(\"no such case\"),")
    em.emit("    }")
    em.emit("}")
    return "\n".join(em.lines) + "\n"


# ================================================================ rendering: Coq

PRELUDE = "From Unimock Require Import Macro.Messages.\nOpen Scope N_scope.\n"

_OPC = {"ret": "OReturns", "pan": "OPanics", "unm": "OUnmocked", "dfl": "ODefaultImpl", "n": "ONTimes", "al": "OAtLeastTimes"}
_OPENER = {"some": "SomeCall", "each": "EachCall", "next": "NextCall"}


def coq_opt(x):
    return "None" if x is None else f"(Some {x})"


def coq_spec(sp):
    ops = "; ".join(_OPC[o[0]] + (f" {o[1]}" if len(o) > 1 else "") for o in sp["ops"])
    pid = sp["pid"]
    return f"{{| ps_matcher := {coq_opt(pid if pid is not None and sp.get('has_func', True) else None)}; ps_dbg := {coq_opt(pid)}; ps_ops := [{ops}] |}}"


def coq_case(k, case):
    tname = f"Tr{k}"
    def info(me, clone):
        return (f"{{| mi_trait := {coq_str(tname)}; mi_method := {coq_str(me)}; mi_has_default := false; mi_partial_by_default := false; "
                f"mi_has_unmock_arm := false; mi_out_clone := {'true' if clone else 'false'}; mi_more_leaves := 0 |}}")
    methods = (f"[{{| me_info := {info('m', not case['ret_nc'])}; me_sig := [{'; '.join(coq_ty(t) for t in case['sig'])}] |}}; "
               f"{{| me_info := {info('aux', True)}; me_sig := [] |}}]")
    pats = []
    for p in case["pats"]:
        if p["kind"] == "manual":
            pats.append(f"PManual {coq_str(p['text'])} {coq_str(p['file'])} {p['line']}")
        else:
            pats.append(f"PMatching {coq_input(p['input'])} {coq_str(FILE)} {p['line']}")
    clauses = []
    for c in case["clauses"]:
        sps = []
        for sp in c["pats"]:
            sp = dict(sp)
            if sp["pid"] is not None and case["pats"][sp["pid"]]["kind"] == "manual":
                sp["has_func"] = False
            sps.append(coq_spec(sp))
        if c["opener"] == "stub":
            clauses.append(f"TStub {c['mid']} [{'; '.join(sps)}]")
        else:
            clauses.append(f"TCall {c['mid']} {_OPENER[c['opener']]} {sps[0]}")
    calls = "; ".join(f"({mid}, [{'; '.join(coq_val(v) for v in vs)}])" for mid, vs in case["calls"])
    return (f"{{| k_methods := {methods}; k_pats := [{'; '.join(pats)}]; k_partial := {'true' if case['partial'] else 'false'}; "
            f"k_clauses := [{'; '.join(clauses)}]; k_calls := [{calls}]; k_verify := {'true' if case['verify'] else 'false'}; k_swallow := {'true' if case.get('swallow') else 'false'} |}}")


# ================================================================ projections

ANSI = re.compile(r"\x1b\[[0-9;]*m")
PATH = r"[A-Za-z_][A-Za-z0-9_]*::[A-Za-z_][A-Za-z0-9_]*"
HEADER = re.compile(r"(Pattern|Equality|Inequality) mismatch for (?:call pattern #(\d+), )?input #(\d+)( \(actual / expected\))?:\n")


def split_args(s):
    """top-level `, ` split, honouring quotes and brackets"""
    out, cur, depth, q, i = [], "", 0, False, 0
    while i < len(s):
        ch = s[i]
        if q:
            cur += ch
            if ch == "\\":
                cur += s[i + 1]; i += 1
            elif ch == '"':
                q = False
        elif ch == '"':
            q = True; cur += ch
        elif ch in "([{":
            depth += 1; cur += ch
        elif ch in ")]}":
            depth -= 1; cur += ch
        elif ch == "," and depth == 0 and s[i + 1:i + 2] == " ":
            out.append(cur); cur = ""; i += 1
        else:
            cur += ch
        i += 1
    if cur or out:
        out.append(cur)
    return out


def parse_call_prefix(msg):
    """-> (path, args|None, rest)"""
    m = re.match(PATH, msg)
    if not m:
        return None
    path, i = m.group(0), m.end()
    if msg[i:i + 1] != "(":
        return path, None, msg[i:]
    depth, q, j = 0, False, i
    while j < len(msg):
        ch = msg[j]
        if q:
            if ch == "\\": j += 1
            elif ch == '"': q = False
        elif ch == '"': q = True
        elif ch in "([{": depth += 1
        elif ch in ")]}":
            depth -= 1
            if depth == 0:
                break
        j += 1
    return path, split_args(msg[i + 1:j]), msg[j + 1:]


def parse_pattern_ref(text):
    m = re.search(r"call pattern (" + PATH + r")\[#(\d+)\]", text)
    if m:
        return {"idx": [m.group(1), int(m.group(2))]}
    m = re.search(r"(" + PATH + r")((?![A-Za-z0-9_:]).*) at ([^\s:]+):(\d+)", text)
    if m:
        return {"named": [m.group(1), m.group(2), m.group(3), int(m.group(4))]}
    return None


def parse_mismatches(block):
    out = []
    hs = list(HEADER.finditer(block))
    for n, h in enumerate(hs):
        body = block[h.end(): hs[n + 1].start() if n + 1 < len(hs) else len(block)]
        actual = expected = None
        if "can't display diagnostics" in body:
            pass
        elif re.search(r"^<", body, re.M):
            a = re.search(r"^<(.*)$", body, re.M)
            e = re.search(r"^>(.*)$", body, re.M)
            actual, expected = a.group(1), e.group(1) if e else None
        elif "actual: " in body and "expected: " in body:      # built without pretty-print
            a = re.search(r"actual: (.*)expected: (.*)$", body, re.S)
            actual, expected = a.group(1), a.group(2)
        elif "identical:" in body:
            actual = body.split("identical:", 1)[1].strip("\n")
        else:
            actual = body.strip("\n")
        out.append({"pat": int(h.group(2)) if h.group(2) is not None else None, "input": int(h.group(3)),
                    "actual": actual, "kind": h.group(1), "expected": expected})
    return out


def parse_error_text(msg):
    """one mock error -> components"""
    r = parse_call_prefix(msg)
    if r is None:
        return {"unparsed": msg}
    path, args, rest = r
    head, _, block = rest.partition("\n")
    return {"path": path, "args": args, "pat": parse_pattern_ref(head), "mm": parse_mismatches("\n" + block if block else ""),
            "text": msg}


def parse_verify_line(line):
    m = re.match(r"Mock for (" + PATH + r") was never called", line)
    if m:
        return {"path": m.group(1), "args": None, "pat": None, "mm": [], "text": line}
    m = re.match(r"(" + PATH + r"): Expected (.*) to match (?:exactly|at least) ", line)
    if m:
        return {"path": m.group(1), "args": None, "pat": parse_pattern_ref(m.group(2)), "mm": [], "text": line}
    return None


def impl_observation(obs):
    """harness output lines of one case -> {'class':.., 'errors':[components]}"""
    line = obs[0] if obs else "CRASH"
    if line == "OK":
        return {"class": "no-panic", "errors": []}
    if not line.startswith("PANIC "):
        return {"class": "crash", "errors": [], "raw": obs}
    msg = ANSI.sub("", bytes.fromhex(line[6:]).decode("utf-8", "replace"))
    vlines = [parse_verify_line(l) for l in msg.split("\n")]
    if vlines and all(v is not None for v in vlines):
        return {"class": "verify-panic", "errors": vlines, "text": msg}
    return {"class": "panic", "errors": [parse_error_text(msg)], "text": msg}


def model_observation(lines):
    if not lines:
        return {"class": "empty", "errors": []}
    cls = lines[0]
    if cls not in ("panic", "verify-panic"):
        return {"class": cls, "errors": []}
    errs, cur = [], None
    def new():
        return {"path": None, "args": None, "pat": None, "mm": [], "kind": None, "text": None}
    for l in lines[1:]:
        if l == "error" or cur is None:
            cur = new(); errs.append(cur)
            if l == "error":
                continue
        tag, _, val = l.partition(" ")
        if tag == "kind": cur["kind"] = val
        elif tag == "path": cur["path"] = val
        elif tag == "args": cur["args"] = []
        elif tag == "arg": cur["args"].append(val[1:] if val[0] == "S" else "?")
        elif tag == "pat":
            p, _, t = val.partition("|")
            cur["pat"] = {"named": [p, t, None, None]}
        elif tag == "loc":
            f, _, ln = val.rpartition(":")
            cur["pat"]["named"][2:] = [f, int(ln)]
        elif tag == "patidx":
            p, _, i = val.rpartition(" ")
            cur["pat"] = {"idx": [p, int(i)]}
        elif tag == "mm":
            pi, ii, a = val.split(" ", 2)
            cur["mm"].append({"pat": None if pi == "-" else int(pi), "input": int(ii), "actual": a[1:] if a[0] == "S" else None})
        elif tag == "mmx":
            kd, _, e = val.partition(" ")
            cur["mm"][-1]["kind"] = kd
            cur["mm"][-1]["expected"] = e[1:] if e[0] == "S" else None
        elif tag == "head": cur["text"] = val
    return {"class": cls, "errors": errs}


def proj_error(e):
    if "unparsed" in e:
        return ("unparsed", e["unparsed"])
    pat = e["pat"]
    pat = None if pat is None else ("idx",) + tuple(pat["idx"]) if "idx" in pat else ("named",) + tuple(pat["named"])
    return (e["path"], None if e["args"] is None else tuple(e["args"]), pat,
            tuple((m["pat"], m["input"], m["actual"]) for m in e["mm"]))


def projection(o):
    errs = [proj_error(e) for e in o["errors"]]
    if o["class"] == "verify-panic":
        errs = sorted(errs, key=repr)          # method order is TypeId order: multiset
    return (o["class"], tuple(errs))


# ================================================================ running

def write_gen_rs(cases, harness="msgs"):
    src = render_gen_rs(cases)           # also fills in the line of every matching!
    if harness != "msgs":
        # a private copy of the crate for a part of another property
        a, b = os.path.join(C.VERIF, "harness", "msgs"), os.path.join(C.VERIF, "harness", harness)
        os.makedirs(os.path.join(b, "src"), exist_ok=True)
        for rel in ("Cargo.toml.in", os.path.join("src", "main.rs")):
            text = open(os.path.join(a, rel)).read().replace('name = "vmsgs"', f'name = "v{harness}"')
            if not os.path.exists(os.path.join(b, rel)) or open(os.path.join(b, rel)).read() != text:
                open(os.path.join(b, rel), "w").write(text)
    path = os.path.join(C.VERIF, "harness", harness, "src", "gen.rs")
    if not os.path.exists(path) or open(path).read() != src:
        open(path, "w").write(src)
    return src


def both(cases, harness="msgs"):
    write_gen_rs(cases, harness)
    binary = C.build_harness(harness)
    impl = C.run_harness(binary, [f"case {k} {k}" for k in range(len(cases))])
    model = C.coq_eval_cases(PRELUDE, [coq_case(k, c) for k, c in enumerate(cases)], shard=12)
    return [impl_observation(o) for o in impl], [model_observation(m) for m in model]


def disagree(io, mo):
    return projection(io) != projection(mo)


def canon(case):
    return json.dumps({k: case[k] for k in ("sig", "ret_nc", "pats", "partial", "clauses", "calls", "verify")}, sort_keys=True, default=list)


def nontrivial(case, mo):
    return len(case["sig"]) >= 1 and any(e["pat"] is not None or e["mm"] for e in mo["errors"])


def distribution(cases, models):
    d = collections.Counter()
    for c, mo in zip(cases, models):
        d["scenario:" + c["scenario"]] += 1
        d["arity:%d" % len(c["sig"])] += 1
        d["class:" + mo["class"]] += 1
        for t in c["sig"]:
            d["type:" + ty_class(t)] += 1
        for p in c["pats"]:
            if p["kind"] == "manual":
                d["input:manual-pat_debug"] += 1
                continue
            inp = p["input"]
            d["input:" + ("empty" if not inp["alts"] else "guard" if inp["guard"] is not None else
                          "alternatives" if len(inp["alts"]) > 1 else "single")] += 1
            d["input:multiline" if inp["multiline"] else "input:one-line"] += 1
            for a in inp["alts"]:
                for sp in a:
                    d["subpat:" + pat_shape(sp)] += 1
        for e in mo["errors"]:
            d["error:" + str(e["kind"])] += 1
            if e["kind"] in ("InputsNotMatchedInCallOrder", "NoMatchingCallPatterns"):
                d["mismatches-listed:%d" % len(e["mm"])] += 1
                if e["mm"] and any(m["pat"] is not None for m in e["mm"]):
                    d["mismatches:across-patterns"] += 1
            for m in e["mm"]:
                d["mismatch-kind:" + m["kind"] + (":no-debug" if m["actual"] is None else "")] += 1
            if e["args"] is not None and "?" in e["args"]:
                d["call-with-?-argument"] += 1
    return dict(sorted(d.items()))


def shrink_candidates(case):
    """smaller variants: drop a parameter position, turn a sub-pattern into `_`, drop a clause, drop a call"""
    out = []
    n = len(case["sig"])
    def clone():
        return json.loads(json.dumps(case))
    for i in range(n):
        c = clone()
        del c["sig"][i]
        for p in c["pats"]:
            if p["kind"] == "matching":
                for a in p["input"]["alts"]:
                    del a[i]
                if n == 1:
                    p["input"]["alts"], p["input"]["guard"] = [], None
        c["calls"] = [(m, vs[:i] + vs[i + 1:] if m == 0 else vs) for m, vs in c["calls"]]
        out.append(c)
    for pi, p in enumerate(case["pats"]):
        if p["kind"] != "matching":
            continue
        for ai, a in enumerate(p["input"]["alts"]):
            for i, sp in enumerate(a):
                if sp[0] != "wild":
                    c = clone()
                    c["pats"][pi]["input"]["alts"][ai][i] = ["wild"]
                    out.append(c)
        if p["input"]["multiline"]:
            c = clone(); c["pats"][pi]["input"]["multiline"] = False; out.append(c)
    if len(case["calls"]) > 1:
        c = clone(); c["calls"] = c["calls"][1:]; out.append(c)
    if any(case["pad"]):
        c = clone(); c["pad"] = [0, 0, 0, 0]; out.append(c)
    return [normalize(c) for c in out]


def normalize(case):
    """JSON round trip turns tuples into lists; restore what the renderers index by position only"""
    def T(t):
        return (t[0], t[1]) if t[0] == "B" else ("R", t[1], T(t[2])) if t[0] == "R" else ("S", T(t[1]))
    case = dict(case)
    case["sig"] = [T(t) for t in case["sig"]]
    case["calls"] = [(m, vs) for m, vs in case["calls"]]
    return case


def show_obs(o):
    return {"class": o["class"], "errors": [{k: e.get(k) for k in ("path", "args", "pat", "mm", "text", "kind", "unparsed") if k in e} for e in o["errors"]]}


class MessagePart:
    """a correspondence part for other properties: programs of this generator (every error kind, every arity) whose string arguments
    and string patterns include LONG non-ASCII texts, run in a private copy of the crate; a process abort (a second panic while the
    message of the first is produced) is seen as a crashed case"""
    def __init__(self, prop, n_quick=70, n_thorough=400):
        self.prop, self.n = prop, {"quick": n_quick, "thorough": n_thorough}

    def __call__(self, rng, tier, seed, cases_):
        global DOM_STR
        saved = DOM_STR
        DOM_STR = ["", "a", "\u00e9" * 300, "x" + "\u00fc" * 280, "b" * 700]
        try:
            cases = []
            for c in gen_cases(rng, "quick"):
                if any(core(t)[1] in ("Str", "String") for t in c["sig"] if core(t)[0] == "B") and len(cases) < self.n[tier]:
                    cases.append(c)
        finally:
            DOM_STR = saved
        impl, model = both(cases, harness="msgs" + self.prop[1:])
        bad = [i for i in range(len(cases)) if disagree(impl[i], model[i])]
        cov = {"message_part": {"evaluations": len(cases), "rule": MessagePart.__doc__}}
        if not bad:
            return len(cases), None, cov
        i = bad[0]
        return len(cases), {"property": self.prop, "seed": seed, "part": "messages",
                            "theorem_or_correspondence": f"correspondence {self.prop} (message part): panic text of the generated program vs Macro.Messages.run19 "
                                                         "(a crashed case = the process aborted)",
                            "case": cases[i], "rust_program": sample_src(0, cases[i]), "coq_case": coq_case(0, cases[i]),
                            "expected_by_model": show_obs(model[i]), "observed_on_implementation": show_obs(impl[i]),
                            "disagreeing_cases_in_run": len(bad), "replay_cmd": f"./check {self.prop} --replay <this file>"}, cov


def replay_messages(prop, payload, path):
    case = payload["case"]
    ci, cm = both([case], harness="msgs" + prop[1:])
    print("model:", show_obs(cm[0])); print("impl :", show_obs(ci[0]))
    if disagree(ci[0], cm[0]):
        C.violation(prop, path); return 1
    print("agree"); return 0


def run(tier, seed):
    t0 = time.time()
    rng = random.Random(seed)
    obligations = C.proof_obligations("C19", MODULE, THEOREMS)
    cases = gen_cases(rng, tier)
    impl, model = both(cases)
    bad = [i for i in range(len(cases)) if disagree(impl[i], model[i])]
    distinct = {}
    for c, mo in zip(cases, model):
        distinct.setdefault(canon(c), (c, mo))
    nt = sum(1 for c, mo in distinct.values() if nontrivial(c, mo))
    n_obl = len(obligations) + 1
    cov = {
        "obligations": n_obl,
        "discharged": len(obligations) + (0 if bad else 1),
        "checker_cmd": f"make -C /verif/coq ; ./check C19 --tier {tier}",
        "trusted_base": C.TRUSTED_BASE + ["rustc type-checks the generated traits and matching! invocations (harness/msgs/src/gen.rs)",
                                          "the message parser of vlib/props/C19.py (call prefix, pattern reference, mismatch headers, pretty_assertions `<`/`>` lines)"],
        "theorems": obligations,
        "correspondence_obligation": "every generated program: projection(panic text of the real crate) = projection(Macro.Messages.run19 in Coq)",
        "evaluations": len(cases), "distinct_nontrivial": nt, "rule": RULE,
        "samples": [{"program": sample_src(k, cases[k]), "model": show_obs(model[k]), "implementation_text": impl[k].get("text")}
                    for k in pick_samples(cases, model)],
        "distribution": distribution(cases, model),
    }
    if bad:
        i = bad[0]
        case = cases[i]
        for _ in range(3 if tier == "quick" else 6):
            cands = shrink_candidates(case)[:40]
            if not cands:
                break
            try:
                ci, cm = both(cands)
            except C.CheckFailure:
                break                       # a candidate does not compile: keep what we have
            nxt = next((c for k, c in enumerate(cands) if disagree(ci[k], cm[k])), None)
            if nxt is None:
                break
            case = nxt
        ci, cm = both([case])
        payload = {"property": "C19", "seed": seed,
                   "theorem_or_correspondence": "correspondence C19: panic text of the generated program vs Macro.Messages.run19",
                   "case": case, "rust_program": sample_src(0, case), "coq_case": coq_case(0, case),
                   "expected_by_model": show_obs(cm[0]), "observed_on_implementation": show_obs(ci[0]),
                   "projection_model": repr(projection(cm[0])), "projection_implementation": repr(projection(ci[0])),
                   "disagreeing_cases_in_run": len(bad),
                   "replay_cmd": "./check C19 --replay <this file>"}
        path = C.write_replay("C19", seed, payload)
        C.write_evidence("C19", tier, seed, cov, time.time() - t0, 1)
        C.violation("C19", path)
        return 1
    C.write_evidence("C19", tier, seed, cov, time.time() - t0, 0,
                     assumptions=["model/implementation agreement is established on the generated programs only",
                                  "the body of a value diff under the pretty-print feature (pretty_assertions) is not modelled; actual/expected are read off its `<`/`>` lines"])
    print(f"C19: {len(obligations)} theorems closed; {len(cases)} generated programs agree on call, arguments, pattern name, file:line and mismatch positions ({time.time()-t0:.1f}s)")
    return 0


def sample_src(k, case):
    em = Emitter()
    case = json.loads(json.dumps(case))
    emit_case(em, k, normalize(case))
    return "\n".join(em.lines)


def pick_samples(cases, model):
    seen, out = set(), []
    for k, (c, mo) in enumerate(zip(cases, model)):
        key = c["scenario"]
        if key in ("inorder_mismatch", "no_match", "wrong_order", "verify") and key not in seen and len(c["sig"]) >= 2:
            seen.add(key); out.append(k)
    return out[:4]


def replay(path):
    payload = json.load(open(path))
    case = payload.get("case")
    if case is None:
        print("replay file names an obligation, not an input:", payload.get("theorem_or_correspondence"))
        return 1
    case = normalize(case)
    ci, cm = both([case])
    print("program:\n" + sample_src(0, case))
    print("model  :", json.dumps(show_obs(cm[0]), indent=1))
    print("impl   :", json.dumps(show_obs(ci[0]), indent=1))
    if disagree(ci[0], cm[0]):
        C.violation("C19", path)
        return 1
    print("agree on the property's projection")
    return 0

"""C16 -- unmocking calls the registered real function with the mock as its dependency."""
import collections, copy, json, random, time
from .. import common as C
from .. import cases as K
from .. import layer_d as D
from ..layer_a import proj_kinds
from ..runner import canon, load_corpus

MODULE = "Props.C16"
THEOREMS = ["C16_unmock_reaches_real_function", "C16_cannot_unmock_names_method", "C16_real_function_arguments",
            "C16_recursion_through_the_mock", "C16_recursion_stops_at_a_mocked_level", "C16_known_F1_refuted", "C16_nonvacuous"]
CRATE = "deleg16"

RULE = ("clause sets over the unmocking inventory: traits whose unmock_with lists contain the three forms at different positions -- plain path "
        "(T::m0, T::m2 with default body, D::r0, D::u3 whose real function recurses through the mock to depth a), explicit parameter expressions "
        "`real_u2(b, a)` (D::u2, two distinct arguments), explicit expressions starting with the mock `real_u3(self, b, a)` (D::u3, inputs in another order than declared), `_` (T::m1, T::m3, D::r1), entries behind receiver-less provided functions that occupy a "
        "slot, and an entry on a `&mut self` method (D::m_mut, finding F1) -- with applies_unmocked() responses, partial fall-through and mentioned-but-"
        "unmatched calls, strict and partial; u3 is called with depths 0..7 while patterns answer some of the nested levels (the recursion must stop "
        "there and count that pattern); real functions that panic (armed). Compared per call on result text (which function ran, with which arguments, "
        "how deep) and on the verdict. distinct = canonical JSON; non-trivial = a call reaches a real function or the missing-function panic")


def gen_case(rng, pool=None):
    tag = [0]
    def fresh():
        tag[0] += 1
        return tag[0]
    terms = []
    t_only = pool is not None
    pool = pool or [0, 1, 2, 3, 10, 11, 12, 13, 20]
    for mid in rng.sample(pool, rng.randint(0, min(4, len(pool)))):
        mask = rng.choice([255, rng.randrange(256), 1 << rng.randrange(8)])
        kind = rng.choice(["unm", "unm", "ret", "chain", "unm_n"])
        if kind == "unm":
            ops = [("unm",)]
        elif kind == "unm_n":
            ops = [("unm",), ("n", rng.randint(1, 3))] + ([("then",), ("ret", fresh())] if rng.random() < 0.5 else [])
        elif kind == "ret":
            ops = [("ret", fresh())]
        else:
            ops = [("ret", fresh()), ("n", 1), ("then",), ("unm",)]
        terms.append({"kind": "call", "mid": mid, "opener": rng.choice(["each", "each", "some"]) if kind != "unm_n" else "each",
                      "pat": {"matcher": mask, "dbg": fresh(), "ops": ops}})
        if kind == "ret" and terms[-1]["opener"] == "some":
            terms[-1]["pat"]["ops"] = [("ret", fresh()), ("n", 2)]
    evs = []
    if rng.random() < 0.3:
        evs.append({"base": ("clone", 0)})
    ninst = 2 if evs else 1
    for _ in range(rng.randint(3, 9)):
        i = rng.randrange(ninst)
        r = rng.random()
        if r < 0.3 and not t_only:
            evs.append({"base": ("call", i, 13, rng.randrange(8))})
        elif r < 0.45 and not t_only:
            evs.append({"base": ("call", i, 12, rng.randrange(7))})
        else:
            # 36 / 37: the hidden-API trait HD (required method with a registered function, provided method whose body calls it)
            evs.append({"base": ("call", i, rng.choice(pool + ([] if t_only else [36, 37, 36])), rng.randrange(8))})
        if rng.random() < 0.06:
            evs.insert(len(evs) - 1, {"base": ("arm", 1)})
    if ninst == 2:
        evs.append({"base": ("drop", 1)})
    evs.append({"base": (rng.choice(["drop", "verify", "report"]), 0)})
    return {"partial": rng.random() < 0.6, "terms": terms, "events": evs}


def reaches_real(case):
    for o in case.get("_obs") or []:
        if o.startswith("real") or o.startswith("rec(") or o.startswith("base(") or "cannot be unmocked" in o:
            return True
    return False


def shape_part(rng, tier, seed, prop="C16", harness="shapes16", focus=None, what=None, want=None):
    """traits from the C05 grammar (every receiver kind incl. the typed spellings `self: &Self` / `self: &mut Self`, arity 0..5, parameter
    classes, sync / async flavours, module and flattened api) that carry an unmock_with list -- entries `_`, path, path(exprs) with `self`
    first / last / absent and shuffled or fewer parameters, receiver-less provided functions occupying slots -- with the method under test
    answered by applies_unmocked(): the registered function must be called once with exactly the mock and the listed values, its result
    returned unchanged (awaited for async); with no function registered the call must panic naming Trait::method"""
    from . import C05
    focus = focus or (lambda m: m["resp"] == "unmock")
    what = what or "generated trait with unmock_with compiled with the real macro vs Macro/ShapeRun (C05_unmock_arm / C05_unmock_slot)"
    traits = []
    tries = 0
    want = want or (60 if tier == "quick" else 400)
    while len(traits) < want and tries < 20 * want:
        tries += 1
        t = C05.gen_trait(rng, 5)
        ms = [m for m in t["methods"] if focus(m)]
        if ms:
            traits.append(t)
    try:
        cases, impl, model = C05.both(traits, harness=harness)
    except C05.BuildBroken as b:
        ti = b.idx[0] if b.idx else 0
        return len(traits), {"property": prop, "seed": seed, "part": "shape",
                             "theorem_or_correspondence": f"correspondence {prop} (shape part): a generated trait no longer compiles with the real macro ({what})",
                             "case": {"trait": traits[ti], "method": 0}, "rust_trait": C05.rust_trait(0, traits[ti]),
                             "observed_on_implementation": ["DOES-NOT-COMPILE"] + [l for l in b.log.splitlines() if l.startswith("error")][:6],
                             "replay_cmd": f"./check {prop} --replay <this file>"}
    badk = [k for k in range(len(cases)) if focus(traits[cases[k][0]]["methods"][cases[k][1]]) and C05.proj(impl[k]) != C05.proj(model[k])]
    n = sum(1 for (ti, mi) in cases if focus(traits[ti]["methods"][mi]))
    if not badk:
        return n, None
    ti, mi = cases[badk[0]]
    t1 = copy.deepcopy(traits[ti]); 
    return n, {"property": prop, "seed": seed, "part": "shape",
               "theorem_or_correspondence": f"correspondence {prop} (shape part): {what}",
               "case": {"trait": traits[ti], "method": mi}, "rust_trait": C05.rust_trait(ti, traits[ti]), "rust_driver": C05.rust_driver(ti, mi, traits[ti]),
               "coq_case": C05.coq_case(traits[ti], mi), "expected_by_model": model[badk[0]], "observed_on_implementation": impl[badk[0]],
               "disagreeing_cases_in_run": len(badk), "replay_cmd": f"./check {prop} --replay <this file>"}


class ShapePart:
    """a correspondence part for run_coexec: traits of the C05 shape grammar that contain a method of interest, compiled with the real
    macro and run against Macro/ShapeRun.v"""
    def __init__(self, prop, harness, focus, what, want_quick=50, want_thorough=300):
        self.prop, self.harness, self.focus, self.what, self.want = prop, harness, focus, what, {"quick": want_quick, "thorough": want_thorough}

    def __call__(self, rng, tier, seed, cases):
        n, payload = shape_part(rng, tier, seed, prop=self.prop, harness=self.harness, focus=self.focus, what=self.what, want=self.want[tier])
        return n, payload, {"shape_part": {"evaluations": n, "rule": ShapePart.__doc__ + ": " + self.what}}


def replay_shape(prop, payload, path, harness):
    from . import C05
    t, mi = payload["case"]["trait"], payload["case"]["method"]
    try:
        cases, impl, model = C05.both([t], harness=harness)
    except C05.BuildBroken as b:
        print("DOES-NOT-COMPILE", [l for l in b.log.splitlines() if l.startswith("error")][:6])
        C.violation(prop, path); return 1
    k = next(k for k, (ti, m2) in enumerate(cases) if m2 == mi)
    print("model:", model[k]); print("impl :", impl[k])
    if C05.proj(impl[k]) != C05.proj(model[k]):
        C.violation(prop, path); return 1
    print("agree"); return 0


def run(tier, seed):
    t0 = time.time()
    rng = random.Random(seed)
    obligations = C.proof_obligations("C16", MODULE, THEOREMS)
    pending_failure = None
    try:
        obligations += C.inventory_obligation(with_dtrait=True)
    except C.CheckFailure as pf:
        pending_failure = pf          # look for a concrete failing input first
    cases = load_corpus("C16") + [gen_case(rng) for _ in range(200 if tier == "quick" else 1200)]
    feat = None
    try:
        impl, model = D.both(CRATE, cases)
    except C.CheckFailure as build_failure:
        feat = ["std-build"]
        # the inventory with the mixed-signature unmock_with list no longer compiles: look for a concrete failing
        # call on the homogeneous trait T alone before reporting the broken correspondence
        cases = [gen_case(rng, pool=[0, 1, 2, 3]) for _ in range(200)]
        def concrete_or_raise():
            # neither inventory builds (or the small one behaves): before reporting the broken correspondence, look for a concrete generated
            # trait on which the macro and the model disagree (shape part)
            n, payload = shape_part(rng, tier, seed)
            if payload is None:
                raise build_failure
            payload["build_failure_of_the_inventory"] = build_failure.detail[-1200:]
            path = C.write_replay("C16", seed, payload)
            C.write_evidence("C16", tier, seed, {"obligations": len(obligations) + 2, "discharged": len(obligations), "theorems": obligations,
                                                 "checker_cmd": f"./check C16 --tier {tier}", "trusted_base": C.TRUSTED_BASE, "evaluations": n,
                                                 "distinct_nontrivial": n, "rule": RULE}, time.time() - t0, 1)
            C.violation("C16", path)
            return 1
        try:
            impl, model = D.both(CRATE, cases, features=["std-build"])
        except C.CheckFailure:
            return concrete_or_raise()
        if all(proj_kinds(c, impl[i]) == proj_kinds(c, model[i]) for i, c in enumerate(cases)):
            return concrete_or_raise()
        pending_failure = None
    for c, m in zip(cases, model):
        c["_obs"] = m
    bad = [i for i, c in enumerate(cases) if proj_kinds(c, impl[i]) != proj_kinds(c, model[i])]
    # known finding F1: calls that resolve to the real implementation of the `&mut self` method D::m_mut
    f1_hits = sum(1 for c, o in zip(cases, impl) for e, x in zip(c["events"], o[1:])
                  if e["base"][0] == "call" and e["base"][2] == 20 and "D::m_mut cannot be unmocked" in x)
    f1_listed = any(f["property"] == "C16" and f.get("id") == "F1" for f in C.known_findings().get("known", []))
    distinct = {canon({k: v for k, v in c.items() if k != "_obs"}): c for c in cases}
    nt = sum(1 for c in distinct.values() if reaches_real(c))
    dist = collections.Counter()
    for c, o in zip(cases, model):
        for e, x in zip(c["events"], o[1:]):
            if e["base"][0] == "call":
                if x.startswith("rec(") or x.startswith("base("):
                    dist[f"u3-recursion-depth={x.count('rec(')}"] += 1
                elif x.startswith("real"):
                    dist["real:" + x.split("(")[0]] += 1
                elif "cannot be unmocked" in x:
                    dist["CannotUnmock:" + x[2:].split(" ")[0]] += 1
                elif x.startswith("P:user:real"):
                    dist["real function panics"] += 1
    cov = {"obligations": len(obligations) + 1, "discharged": len(obligations) + (0 if bad else 1),
           "checker_cmd": f"make -C /verif/coq ; ./check C16 --tier {tier}",
           "trusted_base": C.TRUSTED_BASE + ["rustc type-checks the generated clause expressions (harness/deleg16/src/gen.rs)"],
           "theorems": obligations, "correspondence_obligation": "every generated case: projection(model) = projection(implementation)",
           "evaluations": len(cases), "distinct_nontrivial": nt, "rule": RULE,
           "known_finding_F1_hits": f1_hits,
           "samples": [{"clause": D.rust_clause(c["terms"])[:500], "events": [K.event_tok(e) for e in c["events"]]} for c in cases[:2]],
           "distribution": dict(dist)}
    def strip(c):
        return {k: v for k, v in c.items() if k != "_obs"}
    if bad:
        i = bad[0]
        case = strip(cases[i])
        for _ in range(5):
            cands = K.shrink_candidates(case)[:40]
            if not cands:
                break
            ci, cm = D.both(CRATE, cands, features=feat)
            nxt = next((c for k, c in enumerate(cands) if proj_kinds(c, ci[k]) != proj_kinds(c, cm[k])), None)
            if nxt is None:
                break
            case = nxt
        ci, cm = D.both(CRATE, [case], features=feat)
        payload = {"property": "C16", "seed": seed, "theorem_or_correspondence": "correspondence C16: unmocking vs model", "features": feat,
                   "case": case, "rust_clause": D.rust_clause(case["terms"]), "events": [K.event_tok(e) for e in case["events"]],
                   "expected_by_model": cm[0], "observed_on_implementation": ci[0], "disagreeing_cases_in_run": len(bad)}
        path = C.write_replay("C16", seed, payload)
        C.write_evidence("C16", tier, seed, cov, time.time() - t0, 1)
        C.violation("C16", path)
        return 1
    # shape part: generated traits over the signature grammar with unmock_with in its three forms at every position (the C05
    # machinery and macro model: C05_unmock_arm, C05_unmock_slot), every method answered through applies_unmocked()
    shape_n, shape_payload = 0, None
    if not bad:
        shape_n, shape_payload = shape_part(rng, tier, seed)
        cov["shape_part"] = {"evaluations": shape_n, "rule": shape_part.__doc__}
        cov["obligations"] += 1
        cov["discharged"] += 0 if shape_payload else 1
        cov["evaluations"] += shape_n
    if shape_payload is not None:
        path = C.write_replay("C16", seed, shape_payload)
        C.write_evidence("C16", tier, seed, cov, time.time() - t0, 1)
        C.violation("C16", path)
        return 1
    if f1_hits and not f1_listed:
        # the faithful model reproduces F1, so model and code agree; without the recorded finding this is a violation of the property
        c = next(c for c, o in zip(cases, impl) if any("D::m_mut cannot be unmocked" in x for x in o))
        payload = {"property": "C16", "seed": seed,
                   "theorem_or_correspondence": "property C16 fails for `&mut self` receivers (Props.C16.C16_known_F1_refuted) and the finding is not listed in known_findings.json",
                   "case": strip(c), "rust_clause": D.rust_clause(c["terms"]), "events": [K.event_tok(e) for e in c["events"]]}
        path = C.write_replay("C16", seed, payload)
        C.write_evidence("C16", tier, seed, cov, time.time() - t0, 1)
        C.violation("C16", path)
        return 1
    if f1_hits:
        f = next(f for f in C.known_findings()["known"] if f["property"] == "C16" and f.get("id") == "F1")
        print(f"KNOWN-FINDING: property=C16 {f['what']} ({f1_hits} calls of this run)")
    if pending_failure is not None:
        raise pending_failure
    C.write_evidence("C16", tier, seed, cov, time.time() - t0, 0,
                     assumptions=["model/implementation agreement on the generated cases only; fixed inventory of unmock_with lists"])
    print(f"C16: {len(obligations)} theorems closed; {len(cases)} co-executions agree ({time.time()-t0:.1f}s)")
    return 0


def replay(path):
    payload = json.load(open(path))
    if payload.get("part") == "shape":
        from . import C05
        t, mi = payload["case"]["trait"], payload["case"]["method"]
        try:
            cases, impl, model = C05.both([t], harness="shapes16")
        except C05.BuildBroken as b:
            print("does not compile:", [l for l in b.log.splitlines() if l.startswith("error")][:6])
            C.violation("C16", path); return 1
        print("model:", model[mi]); print("impl :", impl[mi])
        if C05.proj(impl[mi]) != C05.proj(model[mi]):
            C.violation("C16", path); return 1
        print("agree"); return 0
    case = payload["case"]
    ci, cm = D.both(CRATE, [case], features=payload.get("features"))
    print("model:", cm[0]); print("impl :", ci[0])
    if proj_kinds(case, ci[0]) != proj_kinds(case, cm[0]):
        C.violation("C16", path); return 1
    print("agree"); return 0

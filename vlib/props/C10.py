"""C10 -- counting, sequencing and ordering are exact under every thread interleaving."""
import collections, json, random, time
from .. import common as C
from .. import cases as K
from .. import layer_b as B
from ..runner import canon

MODULE = "Props.C10"
THEOREMS = ["C10_positions_are_distinct", "C10_joined_equals_sequential", "C10_joined_count_verdict_is_sequential", "C10_errors_are_exactly_the_panics",
            "C10_atomic_call_refines_sequential_call", "C10_nonvacuous"]

RULE = ("programs of 2-4 threads x 1-3 calls on shared patterns (response chains with a distinct tag per position, ordered and unordered "
        "methods, single-use values, patterns that make calls fail) executed on the REAL runtime under a baton-passing scheduler that decides "
        "the interleaving at every atomic operation / lock acquisition (hooks behind --cfg unimock_verif), and in the Layer B model on the same "
        "schedule; compared: the trace (thread, operation kind, location up to renaming), every call's outcome, the verdict after join. Schedules: "
        "random for larger programs, ALL interleavings for the 2-thread x 1-call and 2x2 programs. distinct = canonical JSON; non-trivial = at least "
        "two threads perform an operation on the same location and the schedule interleaves them (not one thread after the other)")


def chain_terms(rng, mids, ordered):
    terms, tag = [], [0]
    def fresh():
        tag[0] += 1
        return tag[0]
    for mid in mids:
        kind = rng.choice(["chain", "chain", "single", "alw", "narrow"])
        if ordered:
            n = rng.randint(1, 3)
            for _ in range(n):
                terms.append({"kind": "call", "mid": mid, "opener": "next",
                              "pat": {"matcher": rng.choice([255, 255, 15]), "dbg": fresh(),
                                      "ops": [("ret", fresh())] + ([("n", rng.randint(1, 2))] if K.CLONE_OK[mid] and rng.random() < 0.5 else [])}})
        elif kind == "single" or not K.CLONE_OK[mid]:
            terms.append({"kind": "call", "mid": mid, "opener": "some", "pat": {"matcher": 255, "dbg": fresh(), "ops": [("ret", fresh())]}})
        elif kind == "chain":
            ops = [("ret", fresh()), ("n", rng.randint(1, 2)), ("then",), ("ret", fresh()), ("n", 1), ("then",), ("ans", fresh())]
            terms.append({"kind": "call", "mid": mid, "opener": "each", "pat": {"matcher": 255, "dbg": fresh(), "ops": ops}})
        elif kind == "alw":
            terms.append({"kind": "call", "mid": mid, "opener": "each", "pat": {"matcher": 255, "dbg": fresh(), "ops": [("ret", fresh()), ("al", 2)]}})
        else:
            terms.append({"kind": "call", "mid": mid, "opener": "each", "pat": {"matcher": 3, "dbg": fresh(), "ops": [("ret", fresh()), ("n", 2), ("then",), ("pan", fresh())]}})
    return terms


def gen_case(rng, nthreads=None, ncalls=None, exhaustive=False, with_mid=None):
    ordered = rng.random() < 0.4
    # 9: a composite single-use value (two slots, emptied one after the other)
    mids = rng.sample([0, 1, 2, 4, 9], rng.randint(1, 2))
    if with_mid is not None and with_mid not in mids:
        mids[0] = with_mid
    terms = chain_terms(rng, mids, ordered)
    nth = nthreads or rng.randint(2, 4)
    threads = []
    for _ in range(nth):
        n = ncalls or rng.randint(1, 3)
        threads.append([(rng.choice(mids + ([3] if rng.random() < 0.1 else [])), rng.choice([0, 1, 1, 5])) for _ in range(n)])
    total = sum(5 * len(t) for t in threads)
    sched = [rng.randrange(nth) for _ in range(rng.randint(0, total))]
    return {"partial": rng.random() < 0.2, "terms": terms, "threads": threads, "sched": sched, "shared": rng.random() < 0.35,
            "report": rng.random() < 0.25}        # the original ended by Termination::report() after the join


def op_counts(model_obs, nthreads):
    n = [0] * nthreads
    for l in model_obs:
        if l.startswith("t") and " " in l and l[1:l.index(" ")].isdigit():
            n[int(l[1:l.index(" ")])] += 1
    return n


def gen_cases(rng, tier, eng):
    cases = [gen_case(rng) for _ in range(250 if tier == "quick" else 2500)]
    # exhaustive part: small programs, every interleaving (operation counts taken from a sequential model run)
    small = [gen_case(rng, nthreads=2, ncalls=1) for _ in range(12 if tier == "quick" else 60)]
    small += [gen_case(rng, nthreads=2, ncalls=2) for _ in range(3 if tier == "quick" else 20)]
    small += [gen_case(rng, nthreads=2, ncalls=1, with_mid=9) for _ in range(4 if tier == "quick" else 20)]
    if tier == "thorough":
        small += [gen_case(rng, nthreads=3, ncalls=1) for _ in range(20)]
    for c in small:
        c["sched"] = []
    base = eng.model(small)
    for c, obs in zip(small, base):
        counts = op_counts(obs, len(c["threads"]))
        scheds = list(B.all_schedules(counts))
        if len(scheds) > 400:
            scheds = rng.sample(scheds, 400)
        for s in scheds:
            c2 = dict(c); c2["sched"] = s; c2["_exh"] = True
            cases.append(c2)
    return cases


def nontrivial(case, proj):
    if len(proj) != 3:
        return False
    trace = proj[0]
    by_loc = collections.defaultdict(list)
    for k, (tid, op, loc) in enumerate(trace):
        by_loc[loc].append(tid)
    shared = any(len(set(v)) >= 2 for v in by_loc.values())
    # interleaved: some thread appears, then another, then the first again
    tids = [t for (t, _, _) in trace]
    inter = any(tids[i] != tids[i + 1] and tids[i] in tids[i + 2:] for i in range(len(tids) - 2))
    return shared and inter


def run(tier, seed):
    t0 = time.time()
    rng = random.Random(seed)
    obligations = C.proof_obligations("C10", MODULE, THEOREMS)
    eng = B.SchedEngine()
    eng.build()
    cases = gen_cases(rng, tier, eng)
    impl, model = eng.both(cases)
    pi = [B.project(o) for o in impl]
    pm = [B.project(o) for o in model]
    result_bad = [i for i in range(len(cases)) if B.results_only(pi[i]) != B.results_only(pm[i])]
    trace_bad = [i for i in range(len(cases)) if pi[i] != pm[i]]
    distinct = {}
    for i, c in enumerate(cases):
        distinct.setdefault(canon({k: v for k, v in c.items() if not k.startswith("_")}), i)
    nt = sum(1 for i in distinct.values() if nontrivial(cases[i], pm[i]))
    dist = collections.Counter()
    for i, c in enumerate(cases):
        dist[f"threads={len(c['threads'])}"] += 1
        dist["exhaustive-schedules" if c.get("_exh") else "random-schedule"] += 1
        if len(pm[i]) == 3:
            dist[f"ops={min(len(pm[i][0]), 12)}"] += 1
    cov = {
        "obligations": len(obligations) + 1, "discharged": len(obligations) + (0 if trace_bad else 1),
        "checker_cmd": f"make -C /verif/coq ; ./check C10 --tier {tier}", "trusted_base": C.TRUSTED_BASE + [
            "the controlled scheduler (harness/sched) is sequentially consistent: weak-memory behaviour (e.g. Relaxed orderings) is not exhibited"],
        "theorems": obligations,
        "correspondence_obligation": "same program, same schedule: trace, outcomes and verdict of the real runtime = Layer B model",
        "evaluations": len(cases), "distinct_nontrivial": nt, "rule": RULE,
        "samples": [B.harness_line(cases[k], "sample") for k in range(3)], "distribution": dict(dist),
    }
    # concurrent lending: calls answered with `u.make_ref(..)` through one shared &Unimock hand every caller its OWN value (the value
    # chain's try_insert walk is the one further piece of shared mutable state a concurrent call touches; C13's model and harness)
    lend_n, lend_payload = 0, None
    if not trace_bad:
        from . import C13
        lend_n, lend_payload = C13.concurrent_lending(rng, tier, "C10")
        cov["lending_part"] = {"evaluations": lend_n, "rule": C13.concurrent_lending.__doc__}
        cov["obligations"] += 1
        cov["discharged"] += 0 if lend_payload else 1
        cov["evaluations"] += lend_n
    if lend_payload is not None:
        lend_payload["seed"] = seed
        no_input = lend_payload.pop("no_input", False)
        path = C.write_replay("C10", seed, lend_payload)
        C.write_evidence("C10", tier, seed, cov, time.time() - t0, 1)
        C.violation("C10", path, no_input=no_input)
        return 1
    if trace_bad:
        # prefer an input on which the PROPERTY fails (results differ from the model, which satisfies it by theorem)
        if result_bad:
            i = min(result_bad, key=lambda k: (sum(len(t) for t in cases[k]["threads"]), len(cases[k]["sched"])))
            what, no_input = "results (outcomes / verdict) differ from the Layer B model on this schedule", False
        else:
            i = trace_bad[0]
            what, no_input = "trace correspondence: the runtime's atomic operations differ from the model's (results agree on every schedule tried)", True
        payload = {"property": "C10", "seed": seed, "theorem_or_correspondence": what,
                   "case": {k: v for k, v in cases[i].items() if not k.startswith("_")},
                   "harness_line": B.harness_line(cases[i], "replay"), "coq_case": B.coq_case(cases[i]),
                   "expected_by_model": model[i], "observed_on_implementation": impl[i],
                   "cases_with_different_results": len(result_bad), "cases_with_different_traces": len(trace_bad),
                   "replay_cmd": "./check C10 --replay <this file>"}
        path = C.write_replay("C10", seed, payload)
        C.write_evidence("C10", tier, seed, cov, time.time() - t0, 1)
        C.violation("C10", path, no_input=no_input)
        return 1
    C.write_evidence("C10", tier, seed, cov, time.time() - t0, 0,
                     assumptions=["sequentially consistent scheduler; model/implementation agreement on the generated programs and schedules only"])
    print(f"C10: {len(obligations)} theorems closed; {len(cases)} scheduled co-executions agree ({time.time()-t0:.1f}s)")
    return 0


def replay(path):
    payload = json.load(open(path))
    if payload.get("part") == "lending":
        from . import C13
        return C13.replay_lending("C10", payload, path)
    case = payload.get("case")
    if case is None:
        print("replay file names an obligation, not an input:", payload.get("theorem_or_correspondence"))
        return 1
    eng = B.SchedEngine()
    eng.build()
    impl, model = eng.both([case])
    print("model:", model[0])
    print("impl :", impl[0])
    if B.project(impl[0]) != B.project(model[0]):
        C.violation("C10", path)
        return 1
    print("agree")
    return 0

"""C04 -- next_call patterns are consumed strictly in declaration order across methods."""
import collections
from .. import cases as K
from ..layer_a import Engine, proj_default
from ..runner import run_coexec, replay_coexec
from ..tuple_part import TuplePart
from .C16 import ShapePart
from .C03 import lower_bound

MODULE = "Props.C04"
THEOREMS = ["C04_slot_owner", "C04_ranges_disjoint", "C04_ordered_call", "C04_slot_response_position",
            "C04_invariant_initially", "C04_unordered_calls_do_not_disturb", "C04_nonvacuous"]

RULE = ("1-4 ordered methods and 0-2 unordered ones, 1-8 next_call clauses with counts 0-3 and response chains inside a "
        "slot range, unordered clauses interleaved at every position; history = an accepted prefix of the global slot "
        "sequence (unordered calls sprinkled in) extended by one further call drawn from every method x {accepted, "
        "rejected argument} and then a random tail; distinct = canonical JSON; non-trivial = >= 2 ordered clauses of >= 2 "
        "methods and a prefix of >= 1 accepted call")


def nontrivial(case):
    o = [t for t in case["terms"] if t["kind"] == "call" and t["opener"] == "next"]
    return len(o) >= 2 and len({t["mid"] for t in o}) >= 2 and case.get("_prefix", 0) >= 1


def arg_for(mask, accept, rng):
    c = [a for a in range(K.NARGS) if ((mask >> a) & 1) == (1 if accept else 0)]
    return rng.choice(c) if c else None


def gen_case(rng):
    all_m = [0, 1, 2, 3, 4, 5]
    rng.shuffle(all_m)
    n_ord = rng.randint(1, 4)
    ord_m = all_m[:n_ord]
    un_m = all_m[n_ord:n_ord + rng.randint(0, 2)]
    g = K.Gen(rng, mids=ord_m + un_m, max_count=3, max_segments=3, nomatcher_frac=0.0)
    terms, slots, dbgs = [], [], []
    for _ in range(rng.randint(1, 8)):
        mid = rng.choice(ord_m)
        p = g.pat("DR", True, K.CLONE_OK[mid], False, dbgs)
        if rng.random() < 0.6:
            p["matcher"] = 255
        terms.append({"kind": "call", "mid": mid, "opener": "next", "pat": p})
        lb, _ = lower_bound(p, True, True)
        slots += [(mid, p["matcher"])] * lb
    for mid in un_m:
        for _ in range(rng.randint(1, 2)):
            opener = rng.choice(["some", "each"])
            p = g.pat("DR" if opener == "some" else "DMR", False, K.CLONE_OK[mid], False, dbgs)
            terms.insert(rng.randint(0, len(terms)), {"kind": "call", "mid": mid, "opener": opener, "pat": p})
    L = rng.choice([len(slots), rng.randint(0, len(slots))])
    evs = [{"base": ("clone", 0)}]
    prefix = 0
    for (mid, mask) in slots[:L]:
        a = arg_for(mask, True, rng)
        if a is None:
            break
        while un_m and rng.random() < 0.25:
            evs.append({"base": ("call", rng.randrange(2), rng.choice(un_m), rng.randrange(K.NARGS))})
        evs.append({"base": ("call", rng.randrange(2), mid, a)})
        prefix += 1
    # the extension: any method, accepted or rejected argument w.r.t. the next slot
    nxt = slots[prefix] if prefix < len(slots) else None
    mid = rng.choice(ord_m + un_m + [all_m[-1]])
    if nxt and rng.random() < 0.5:
        mid = nxt[0]
    a = None
    if nxt and mid == nxt[0]:
        a = arg_for(nxt[1], rng.random() < 0.5, rng)
    if a is None:
        a = rng.randrange(K.NARGS)
    evs.append({"base": ("call", rng.randrange(2), mid, a)})
    for _ in range(rng.randint(0, 4)):
        evs.append({"base": ("call", rng.randrange(2), rng.choice(ord_m + un_m), rng.randrange(K.NARGS))})
    evs += [{"base": ("drop", 1)}, {"base": (rng.choice(["drop", "verify"]), 0)}]
    return {"partial": rng.random() < 0.3, "terms": terms, "events": evs, "_prefix": prefix}


def gen_cases(rng, tier):
    n = 700 if tier == "quick" else 7000
    return [gen_case(rng) for _ in range(n)]


def stats(cases):
    d = collections.Counter()
    for c in cases:
        d[f"ordered_clauses={sum(1 for t in c['terms'] if t['kind']=='call' and t['opener']=='next')}"] += 1
        d[f"prefix={min(c.get('_prefix',0),8)}"] += 1
    return dict(d)


def engines(tier):
    es = [Engine("C04")]
    if tier == "thorough":
        es.append(Engine("C04", bc="cfg_spin", features=["spin-build"]))
    return es


def run(tier, seed):
    return run_coexec("C04", tier, seed, module=MODULE, theorems=THEOREMS, gen_cases=gen_cases,
                      nontrivial=nontrivial, rule=RULE, engines=engines(tier), stats=stats,
                      parts=[TuplePart("C04", proj_default, n_quick=30),
                             # WHEN an ordered call takes its slot: async methods (async fn, -> impl Future, #[async_trait]) are evaluated when
                             # the future is first polled, not when it is built, once per await, never if dropped unpolled (the shape model's
                             # evaluation counters before / after each step)
                             ShapePart("C04", "shapes04", lambda m: m["flav"] != "sync",
                                       "async flavours: the mock is consulted (and an ordered slot taken) at the first poll, once per await, "
                                       "not at all for a future dropped unpolled, vs Macro/ShapeRun (C05_async_deferred, C05_once_per_await)")])


def replay(path):
    import json
    if json.load(open(path)).get("part") == "shape":
        from .C16 import replay_shape
        return replay_shape("C04", json.load(open(path)), path, "shapes04")
    return replay_coexec("C04", path, lambda p: Engine("C04", bc=p.get("build", "cfg_std"), features=p.get("features")))

"""C11 -- the mock never turns one panic into a process abort (std builds)."""
import collections, itertools
from .. import cases as K
from ..layer_a import Engine, proj_kinds, error_kind
from ..runner import run_coexec, replay_coexec

MODULE = "Props.C11"
THEOREMS = ["C11_unwinding_drop_silent", "C11_scope_left_by_panic", "C11_state_after_caught_panic", "C11_matcher_panic_effect",
            "C11_debug_panic_effect", "C11_debug_panic_is_the_only_panic", "C11_scope_left_by_debug_panic", "C11_debug_panic_nonvacuous", "C11_nonvacuous"]

RULE = ("the crash matrix, enumerated: panic origin {user code before the drop (drop while unwinding), matcher (unordered / ordered), answer function, Clone of the returned "
        "value, real (unmocked) function, default body, and each mock-induced error kind: no implementation, no matching pattern, wrong order, "
        "out of range, inputs not matched, single-use value twice, explicit panics(), missing real function, missing default body} x topology "
        "{original only; clone alive on the same thread; the panicking scope owns a clone; original with delegation helper; original holding a "
        "lent clone; scope left on a foreign thread; mock constructed by cleanup code while its thread unwinds} x {expectations met, unmet}; the instance is owned by the scope that panics (callown / "
        "drop-while-unwinding / verify()-from-a-scope-guard-while-unwinding events), a second panic aborts the harness process and is observed as a crash; followed by further calls and "
        "verification of the survivors (the mock stays usable). distinct = canonical JSON; non-trivial = an instance is dropped while unwinding")

# clause sets: (terms, list of (mid, arg) probes that panic for the named reason)
def configs():
    C = []
    base_met = {"kind": "call", "mid": 1, "opener": "each", "pat": {"matcher": 255, "dbg": 9, "ops": [("ret", 9)]}}
    base_unmet = {"kind": "call", "mid": 1, "opener": "each", "pat": {"matcher": 255, "dbg": 9, "ops": [("ret", 9), ("n", 3)]}}
    def t(mid, opener, mask, ops, dbg=1):
        return {"kind": "call", "mid": mid, "opener": opener, "pat": {"matcher": mask, "dbg": dbg, "ops": ops}}
    for bg in (base_met, base_unmet):
        C.append(("user:ans", [t(0, "each", 255, [("ans", 1001)]), bg], (0, 3), None))
        C.append(("user:clone", [t(0, "each", 255, [("ret", 1002), ("al", 0)]), bg], (0, 3), None))
        C.append(("user:real", [t(0, "each", 255, [("unm",)]), bg], (0, 3), 1))
        C.append(("user:dflt", [t(2, "each", 255, [("dfl",)]), bg], (2, 3), 2))
        C.append(("user:matcher", [t(0, "each", (1 << 16) | 255, [("ret", 1)]), bg], (0, 7), None))
        C.append(("user:matcher(ordered)", [t(0, "next", (1 << 16) | 255, [("ret", 1)]), bg], (0, 7), None))
        C.append(("NoMockImplementation", [bg], (0, 3), None))
        C.append(("NoMatchingCallPatterns", [t(0, "each", 2, [("ret", 1)]), bg], (0, 3), None))
        C.append(("CallOrderNotMatched", [t(0, "next", 255, [("ret", 1)]), t(2, "next", 255, [("ret", 2)]), bg], (2, 3), None))
        C.append(("CallOrderOutOfRange", [t(0, "next", 255, [("ret", 1), ("n", 0)]), bg], (0, 3), None))
        C.append(("InputsNotMatchedInCallOrder", [t(0, "next", 2, [("ret", 1)]), bg], (0, 3), None))
        C.append(("ExplicitPanic", [t(0, "each", 255, [("pan", 5)]), bg], (0, 3), None))
        C.append(("CannotUnmock", [t(1, "some", 4, [("unm",)], dbg=2), bg], (1, 2), None))
        C.append(("NoDefaultImpl", [t(0, "each", 255, [("dfl",)]), bg], (0, 3), None))
        C.append(("CannotReturnValueMoreThanOnce", [t(4, "some", 255, [("ret", 1)]), bg], (4, 3), None))
        C.append(("none", [t(0, "each", 255, [("ret", 1)]), bg], (0, 3), None))
        # user code that panics inside the Debug impl of an ARGUMENT while the runtime renders the call for the message of a mock
        # error (DB::db(a: A8), argument 13; mask bit 13 = the pattern accepts it): one panic, the user's; observed through `callm`
        M13 = 255 | (1 << 13)
        C.append(("user:debug(NoMockImplementation)", [bg], (40, 13), None))
        C.append(("user:debug(NoMatchingCallPatterns)", [t(40, "each", 255, [("ret", 1)]), bg], (40, 13), None))
        C.append(("user:debug(ExplicitPanic)", [t(40, "each", M13, [("pan", 5)]), bg], (40, 13), None))
        C.append(("user:debug(CallOrderNotMatched)", [t(0, "next", 255, [("ret", 1)]), t(40, "next", M13, [("ret", 2)]), bg], (40, 13), None))
        C.append(("user:debug(InputsNotMatchedInCallOrder)", [t(40, "next", 255, [("ret", 1)]), bg], (40, 13), None))
        C.append(("user:debug(CannotReturnValueMoreThanOnce)", [t(40, "some", M13, [("ret", 1)]), bg], (40, 13), None))
    return C


TOPOLOGIES = ["orig", "clone_alive", "scope_owns_clone", "helper", "lent", "lent_caller", "foreign_thread", "foreign_thread_clone_alive",
              "created_while_unwinding",
              "nvid_clone_alive", "nvid"]     # the original was switched to no_verify_in_drop() (with / without a clone alive)      # the mock is built by cleanup code (a guard's Drop) running while its thread unwinds


def make_case(origin, terms, probe, arm, topo, variant):
    mid, arg = probe
    evs = []
    inst = 0
    # the Debug-panicking argument: through the observed call (`callm`, which also prints the matcher trace and the number of Debug
    # runs), the plain call (variant "caught") and the scope-owned call (variant "callown")
    CALL = "callm" if mid == 40 and variant != "caught" else "call"
    if topo in ("nvid_clone_alive", "nvid"):
        evs.append({"base": ("nvid", 0)})
    if topo in ("clone_alive", "foreign_thread_clone_alive", "nvid_clone_alive"):
        evs.append({"base": ("clone", 0)})
    if topo == "scope_owns_clone":
        evs.append({"base": ("clone", 0)}); inst = 1
    if topo == "helper":
        evs.append({"base": ("call", 0, 3, 0)})       # m3: unmentioned default body -> helper clone
    if topo == "lent":
        evs.append({"base": ("lend", 0)})
    if topo == "lent_caller":
        # the value chain holds a value whose Drop calls the mock (m1 is mentioned nowhere: the call fails, the Drop swallows the panic) -
        # also when the chain is released while the thread unwinds
        evs.append({"base": ("lendcall", 0, 1, 0)})
        if origin.startswith("user:debug"):
            # ... and one whose swallowed call panics inside the argument's Debug impl
            evs.append({"base": ("lendcall", 0, 40, 13)})
    if origin.endswith("CannotReturnValueMoreThanOnce") or origin.endswith("CannotReturnValueMoreThanOnce)"):
        evs.append({"base": (CALL, inst, mid, arg)})  # first request takes the value
    if arm:
        evs.append({"base": ("arm", arm)})
    other = topo.startswith("foreign_thread")
    if variant == "callown":
        e = {"base": ("callown", inst, mid, arg)}
    elif variant == "call_then_unwinding_drop":
        evs.append({"base": (CALL, inst, mid, arg)})
        e = {"base": ("drop", inst), "unwinding": True}
    elif variant == "call_then_unwinding_verify":
        evs.append({"base": (CALL, inst, mid, arg)})
        e = {"base": ("verify", inst), "unwinding": True}
    else:  # plain caught panic, instance survives
        e = {"base": (CALL, inst, mid, arg)}
    if other:
        e["other"] = True
    evs.append(e)
    # the same call once more through whatever instance survives: a caught panic must not have broken the pattern
    evs.append({"base": (CALL, 0, mid, arg)})
    evs.append({"base": (CALL, 1, mid, arg)})
    # afterwards: the survivors are still usable and verification reflects what was matched
    evs.append({"base": ("call", 0, 1, 0)})
    evs.append({"base": ("call", 1, 1, 0)})
    evs.append({"base": ("count", 0)})
    evs.append({"base": ("drop", 1)})
    evs.append({"base": ("verify", 0)})
    c = {"partial": False, "terms": terms, "events": evs, "_origin": origin, "_topo": topo, "_variant": variant}
    if topo == "created_while_unwinding":
        c["new_unwinding"] = True
    return c


def gen_cases(rng, tier):
    out = []
    for (origin, terms, probe, arm) in configs():
        for topo in TOPOLOGIES:
            for variant in ("callown", "call_then_unwinding_drop", "call_then_unwinding_verify", "caught"):
                if variant == "call_then_unwinding_verify" and topo == "scope_owns_clone":
                    continue      # verify() on a clone panics by contract (C09); not a drop
                out.append(make_case(origin, terms, probe, arm, topo, variant))
    return out


def nontrivial(case):
    if case["_variant"] in ("call_then_unwinding_drop", "call_then_unwinding_verify"):
        return True
    return case["_variant"] == "callown" and case["_origin"] != "none"


def stats(cases):
    d = collections.Counter()
    for c in cases:
        d["origin:" + c["_origin"]] += 1
        d["topology:" + c["_topo"]] += 1
        d["variant:" + c["_variant"]] += 1
        if any(o == "ABORT" for o in (c.get("_obs") or [])):
            d["model-predicts-abort"] += 1
    return dict(d)


def engines(tier):
    return [Engine("C11", project=proj_kinds)]


def _message_part():
    # producing the MESSAGE of a mock-induced panic must not panic itself (a panic while a panic is being reported aborts the process):
    # every error kind with long / non-ASCII argument renderings and pattern texts
    from .C19 import MessagePart
    return MessagePart("C11")


def run(tier, seed):
    return run_coexec("C11", tier, seed, module=MODULE, theorems=THEOREMS, gen_cases=gen_cases,
                      nontrivial=nontrivial, rule=RULE, engines=engines(tier), stats=stats,
                      extra_cov={"exhaustive": True}, parts=[_message_part()])


def replay(path):
    import json
    payload = json.load(open(path))
    if payload.get("part") == "messages":
        from .C19 import replay_messages
        return replay_messages("C11", payload, path)
    return replay_coexec("C11", path, lambda p: Engine("C11", project=proj_kinds))

"""C09 -- only the original instance verifies: once, on its thread, with no clones alive."""
import collections, itertools
from .. import cases as K
from ..layer_a import Engine, proj_kinds
from ..runner import run_coexec, replay_coexec
from ..deleg_part import DelegPart

MODULE = "Props.C09"
THEOREMS = ["C09_clone_drop_silent", "C09_clone_not_original", "C09_verify_on_clone_panics",
            "C09_original_teardown_order", "C09_disabled_drop_silent", "C09_report_matches_verify",
            "C09_at_most_one_original", "C09_original_consumed", "C09_clone_adds_one_handle", "C09_nonvacuous"]

RULE = ("life-cycle event sequences over up to 5 instances: clone (of original or clone), clone_from (the target overwritten in place), drop, verify(), report(), no_verify_in_drop(), "
        "calls (matched, unmatched = recorded error, default-bodied = creates the delegation helper clone), make_ref(clone) (lent clone), "
        "each possibly executed on another thread, with Arc::strong_count observed after every step; clause sets with met / unmet / "
        "error-prone expectations; all sequences of length <= 3 over a reduced alphabet (exhaustive part) plus random sequences of length "
        "up to 14; distinct = canonical JSON; non-trivial = the sequence consumes the original (drop/verify/report) while at least one other "
        "event kind besides calls occurred")

CONFIGS = [
    # met when m0 is called once with argument 1
    [{"kind": "call", "mid": 0, "opener": "each", "pat": {"matcher": 2, "dbg": 1, "ops": [("ret", 1), ("n", 1)]}}],
    # nothing expected
    [{"kind": "call", "mid": 0, "opener": "each", "pat": {"matcher": 255, "dbg": 1, "ops": [("ret", 1)]}}],
    # unmet unless called twice; m2 with explicit default-impl response
    [{"kind": "call", "mid": 0, "opener": "each", "pat": {"matcher": 255, "dbg": 1, "ops": [("ret", 1), ("n", 2)]}},
     {"kind": "call", "mid": 2, "opener": "each", "pat": {"matcher": 255, "dbg": 2, "ops": [("dfl",)]}}],
    # recorded errors of every responder-made kind: m0 answers with panics(), m1 with applies_unmocked() although it has no real
    # function; m2 is satisfied by one call (report() must say FAILURE exactly when an error was recorded or a count is unmet)
    [{"kind": "call", "mid": 0, "opener": "each", "pat": {"matcher": 255, "dbg": 1, "ops": [("pan", 3)]}},
     {"kind": "call", "mid": 1, "opener": "each", "pat": {"matcher": 255, "dbg": 2, "ops": [("unm",)]}},
     {"kind": "call", "mid": 2, "opener": "each", "pat": {"matcher": 255, "dbg": 3, "ops": [("ret", 4), ("al", 1)]}}],
]


def ev(kind, *args, other=False):
    e = {"base": (kind,) + args}
    if other:
        e["other"] = True
    return e


def with_counts(events):
    """observe the strong count after every step through the lowest instance that is certainly alive"""
    out = []
    alive = {0}
    n = 1
    for e in events:
        out.append(e)
        b = e["base"]
        if b[0] == "clone" and b[1] in alive:
            alive.add(n); n += 1
        elif b[0] in ("drop", "verify", "report") and b[1] in alive:
            alive.discard(b[1])
        elif b[0] == "nvid" and b[1] in alive and b[1] != 0:
            alive.discard(b[1])
        if alive:
            out.append(ev("count", min(alive)))
    return out


def alphabet(ninst):
    evs = []
    for i in range(ninst):
        evs += [ev("clone", i), ev("drop", i), ev("verify", i), ev("nvid", i), ev("lend", i),
                ev("call", i, 0, 1), ev("call", i, 2, 0), ev("call", i, 1, 0)]
        # a lent value that calls the mock (through a clone it owns) when the instance's value chain is released
        evs += [ev("lendcall", i, 1, 0)]
    evs += [ev("report", 0), ev("drop", 0, other=True), ev("verify", 0, other=True), ev("report", 0, other=True)]
    # Clone::clone_from: the target is overwritten in place by a clone of the source (its old value is dropped there)
    evs += [ev("clonefrom", i, j) for i in range(ninst) for j in range(ninst) if i != j]
    return evs


def random_seq(rng, n):
    evs = []
    alive, cnt = {0}, 1
    for _ in range(n):
        r = rng.random()
        i = rng.choice(sorted(alive) + ([rng.randrange(cnt)] if rng.random() < 0.1 else [])) if alive else 0
        other = rng.random() < 0.15
        if r < 0.2 and cnt < 5:
            evs.append(ev("clone", i)); alive.add(cnt); cnt += 1
        elif r < 0.25 and len(alive) >= 2:
            j = rng.choice([x for x in sorted(alive) if x != i])
            evs.append(ev("clonefrom", i, j))             # i stays alive: it now holds a clone of j
        elif r < 0.4:
            evs.append(ev("call", i, rng.choice([0, 0, 1, 2, 3]), rng.choice([0, 1]), other=other))
        elif r < 0.46:
            evs.append(ev("lend", i))
        elif r < 0.5:
            evs.append(ev("lendcall", i, rng.choice([0, 1, 2, 3]), rng.choice([0, 1])))
        elif r < 0.58:
            evs.append(ev("nvid", i));
            if i != 0: alive.discard(i)
        elif r < 0.8:
            evs.append(ev("drop", i, other=other)); alive.discard(i)
        elif r < 0.9:
            evs.append(ev("verify", i, other=other)); alive.discard(i)
        else:
            evs.append(ev("report", i, other=other)); alive.discard(i)
    # dispose: clones first, then the original
    for i in sorted(alive, reverse=True):
        evs.append(ev(rng.choice(["drop", "drop", "verify", "report"]) if i == 0 else "drop", i))
    return evs


def gen_cases(rng, tier):
    out = []
    alpha = alphabet(2)
    maxlen = 3 if tier == "thorough" else 2
    for L in range(1, maxlen + 1):
        for seq in itertools.product(alpha, repeat=L):
            out.append({"partial": False, "terms": CONFIGS[len(out) % len(CONFIGS)], "events": with_counts(list(seq)), "_kind": f"exh{L}"})
    # three-step sequences that the quick tier's exhaustive part (length 2) does not reach: no_verify_in_drop on the original, a clone of it,
    # then verify / no_verify_in_drop / drop / report through the clone or the original
    for first in (ev("nvid", 0), ev("call", 0, 0, 1), ev("lend", 0)):
        for last in alpha:
            out.append({"partial": False, "terms": CONFIGS[len(out) % len(CONFIGS)], "events": with_counts([first, ev("clone", 0), last]), "_kind": "dir3"})
    for _ in range(700 if tier == "quick" else 6000):
        out.append({"partial": rng.random() < 0.3, "terms": rng.choice(CONFIGS), "events": with_counts(random_seq(rng, rng.randint(3, 14))),
                    "_kind": "random"})
    return out


def nontrivial(case):
    kinds = {e["base"][0] for e in case["events"]}
    consumed = any(e["base"][0] in ("drop", "verify", "report") and e["base"][1] == 0 for e in case["events"])
    return consumed and len(kinds - {"call", "count"}) >= 2


def stats(cases):
    d = collections.Counter()
    for c in cases:
        d[c["_kind"]] += 1
        for e in c["events"]:
            d["event:" + e["base"][0] + (":other-thread" if e.get("other") else "")] += 1
    return dict(d)


def engines(tier):
    return [Engine("C09", project=proj_kinds)]


def receiver_case(rng):
    """C15's generator (trait D: &self, &mut self, self, Rc / Arc sole or shared, Pin receivers; provided bodies calling required
    methods), with the handle count observed after every call and the original verified, dropped or reported at the end"""
    from . import C15
    c = C15.gen_case(rng)
    evs, alive = [], None
    for e in c["events"]:
        evs.append(e)
    # observe the count through the lowest instance that is certainly still alive after each call
    out, live, n = [], {0}, 1
    from .. import layer_d as D
    for e in evs:
        out.append(e)
        b = e["base"]
        if b[0] == "clone": live.add(n); n += 1
        elif b[0] == "call" and b[2] in D.CONSUMING: live.discard(b[1])
        elif b[0] in ("drop", "verify", "report"): live.discard(b[1])
        if b[0] == "call" and live:
            out.append({"base": ("count", min(live))})
    c["events"] = out
    return c


def directed_pairs():
    """the ORIGINAL as the sole owner behind Rc / Arc / by value, consumed by a provided method whose body makes one required call with
    the same receiver kind: the instance travels into the helper and back (to_delegator / from_delegator) and is verified when the call
    returns - no clone of it may be left alive; also with a clone of the mock alive elsewhere, and through a kept second pointer"""
    out = []
    for (prov, req) in ((24, 23), (30, 29), (34, 33), (35, 23)):
        for with_clone in (False, True):
            terms = [{"kind": "call", "mid": req, "opener": "each", "pat": {"matcher": 255, "dbg": 1, "ops": [("ret", 1)]}}]
            evs = ([{"base": ("clone", 0)}] if with_clone else []) + [{"base": ("call", 0, prov, 2)}]
            if with_clone:
                evs += [{"base": ("count", 1)}, {"base": ("drop", 1)}]
            out.append({"partial": False, "terms": terms, "events": evs})
    for (kept, req) in ((26, 23), (32, 29)):            # the caller keeps a second Rc / Arc: nothing is consumed
        terms = [{"kind": "call", "mid": req, "opener": "each", "pat": {"matcher": 255, "dbg": 1, "ops": [("ret", 1)]}}]
        out.append({"partial": False, "terms": terms, "events": [{"base": ("call", 0, kept, 2)}, {"base": ("count", 0)}, {"base": ("verify", 0)}]})
    return out


def run(tier, seed):
    return run_coexec("C09", tier, seed, module=MODULE, theorems=THEOREMS, gen_cases=gen_cases,
                      nontrivial=nontrivial, rule=RULE, engines=engines(tier), stats=stats,
                      parts=[DelegPart("C09", receiver_case, "correspondence C09 (receiver part): handles created and released by delegation through every receiver kind "
                                       "(helper clones, the original travelling through a by-value / sole-owner Rc / Arc call and back) vs the model: strong counts, "
                                       "which instance is the original, verdicts", rule=receiver_case.__doc__, directed=directed_pairs)])


def replay(path):
    return replay_coexec("C09", path, lambda p: Engine("C09", project=proj_kinds))

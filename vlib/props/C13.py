"""C13 -- references lent by the mock stay valid, distinct and unmodified while borrowed."""
import collections, json, random, re, time
from .. import common as C
from .. import layer_b as B
from ..runner import canon

MODULE = "Props.C13"
THEOREMS = ["C13_push_returns_own_value", "C13_push_index_fresh", "C13_pushes_keep_earlier", "C13_push_conserves",
            "C13_push_mut_releases_earlier", "C13_drop_releases_all", "C13_only_make_mut_releases",
            "C13_make_mut_releases_own_chain_only", "C13_mocked_mut_result_is_make_mut",
            "C13_any_make_mut_releases_own_chain_only", "C13_helper_values_never_released", "C13_held_references_point_at_live_values",
            "C13_concurrent_pushes",
            "C13_concurrent_append_only", "C13_nonvacuous"]

RULE = ("(sequential) sessions on an original, its clone and a clone of the clone: random sequences of make_ref / make_mut (directly, or through a mocked `&mut self` method with a `&mut T` / `Option<&mut T>` result answered with make_mut) / lending through the "
        "instance's delegation helper (a `&self` provided method whose body calls a required method answered with make_ref) / `&mut self` provided "
        "calls (AsMut path) / a late no_verify_in_drop(), each instance finally dropped normally, dropped while its thread unwinds from a panic, or (the original) "
        "verified explicitly; the mock also holds one borrowed-return value configured with returns(), which lives until the last instance goes; three value types "
        "(two same-layout counted types and a zero-sized guard whose Drop is counted), lengths up to 40 (thorough: one run of 400; plus 5000 / 50000 values on a 64 KiB stack as a "
        "test of the iterative walk and drop); after EVERY step the harness re-reads the contents through ALL references it still holds and prints the number "
        "of live lent values; instances are dropped at the end, clones first. (concurrent) 2-8 threads lend values through one shared &Unimock under "
        "the controlled scheduler (one step per OnceCell::try_insert): all interleavings for small programs, random schedules beyond; trace, the values "
        "each thread reads back after the join, distinctness of the addresses, live counts. distinct = canonical JSON; non-trivial = a reference is "
        "re-read after at least two further values were lent (sequential) / at least two threads contend for a cell (concurrent)")

PRELUDE = "From Unimock Require Import Model.RunChain.\nOpen Scope N_scope.\n"


def seq_case(rng, maxlen):
    sessions = []
    for k in range(rng.randint(1, 3)):
        ops = []
        for _ in range(rng.randint(1, maxlen)):
            r = rng.random()
            ty = rng.choice([0, 0, 1, 2])
            v = 0 if ty == 2 else rng.randrange(1000)
            if r < 0.6:
                ops.append(("r", ty, v))
            elif r < 0.76:
                ops.append(("h", min(ty, 1), v))
            elif r < 0.87:
                # make_mut: directly, or (derived from the value so that the random stream stays as it was) through a mocked
                # `&mut self` method with a `&mut` / `Option<&mut _>` result whose answer function calls make_mut
                if ty < 2 and v % 3 == 1:
                    ops.append(("M", ty, v))
                elif ty == 0 and v % 3 == 2:
                    ops.append(("Q", 0, v))
                else:
                    ops.append(("m", ty, v))
            elif r < 0.93:
                ops.append((rng.choice(["t", "t", "p"]),))      # a provided method with a `&mut self` / `Pin<&mut Self>` receiver
            elif r < 0.96 and k == 0:
                ops.append(("n",))          # no_verify_in_drop(), late: only legal on the original
            else:
                ops.append(("l",))
        sessions.append(ops)
    if len(sessions) >= 2 and rng.random() < 0.3:
        # the LAST instance (a clone) ends in a provided method with a by-value receiver: it is moved into the delegation helper and
        # dropped when the call returns; the body's required call reports how many lent values are alive at that moment
        sessions[-1].append(("v",))
    # how each instance finally goes: dropped, dropped while its thread unwinds, or (the original only) verify()
    return {"kind": "seq", "sessions": sessions,
            "unwind": [rng.choice(["drop", "drop", "unwind", "verify", "report"] if j == 0 else ["drop", "drop", "unwind"]) for j in range(len(sessions))]}


def thread_case(rng, nth, per, sched=None):
    vals, nxt = [], 1
    for _ in range(nth):
        n = rng.randint(1, per)
        vals.append(list(range(nxt, nxt + n))); nxt += n
    total = nxt - 1
    if sched is None:
        sched = [rng.randrange(nth) for _ in range(rng.randint(0, total * (total + 1)))]
    return {"kind": "threads", "vals": vals, "sched": sched}


def harness_line(c, cid):
    if c["kind"] == "seq":
        parts = [f"case {cid} SEQ {len(c['sessions'])}"]
        for k, ops in enumerate(c["sessions"]):
            kind = "o" if k == 0 else "c"
            how = (c.get("unwind") or ["drop"] * len(c["sessions"]))[k]
            if how in (True, "unwind"):
                kind = kind.upper()
            elif how == "verify" and k == 0:
                kind = "v"
            elif how == "report" and k == 0:
                kind = "R"
            parts.append(kind + f" {len(ops)} " + " ".join(":".join(str(x) for x in o) for o in ops))
        return " ".join(parts)
    return " ".join([f"case {cid} TH {len(c['vals'])}"] + [f"{len(v)} " + " ".join(map(str, v)) for v in c["vals"]]
                    + [f"S {len(c['sched'])}"] + [str(x) for x in c["sched"]])


def coq_case(c):
    if c["kind"] == "seq":
        def op(o):
            if o[0] == "l": return "CLive"
            if o[0] in ("t", "p"): return "CTouch"
            if o[0] == "n": return "CNvid"
            if o[0] == "v": return "CConsume"
            return f"{ {'r': 'CRef', 'm': 'CMut', 'h': 'CHelp', 'M': 'CMutM', 'Q': 'CMutM'}[o[0]] } {o[1]} {o[2]}"
        return "ChSeq [" + "; ".join("[" + "; ".join(op(o) for o in ops) + "]" for ops in c["sessions"]) + "]"
    return ("ChThreads [" + "; ".join("[" + "; ".join(map(str, v)) + "]" for v in c["vals"]) + "] ["
            + "; ".join(map(str, c["sched"])) + "]")


def project(obs):
    canon_, out = {}, []
    for l in obs:
        if re.match(r"t\d+ \w+ \S+$", l):          # an announced step of the scheduler: thread, operation, location
            tid, op, loc = l.split(" ", 2)
            out.append((tid, op, canon_.setdefault(loc, len(canon_))))
        else:
            out.append(l)
    return out


def gen_cases(rng, tier):
    cases = [seq_case(rng, 12) for _ in range(300 if tier == "quick" else 2000)]
    cases += [seq_case(rng, 40) for _ in range(40 if tier == "quick" else 300)]
    # concurrent: all interleavings of small programs
    for (nth, per) in [(2, 1), (2, 2), (3, 1)]:
        for _ in range(2):
            c = thread_case(rng, nth, per, sched=[])
            total = sum(len(v) for v in c["vals"])
            # a thread lending n values onto a chain of final length T needs at most n*T steps: enumerate prefixes of bounded length
            counts = [len(v) * total for v in c["vals"]]
            scheds = list(B.all_schedules([min(x, 3) for x in counts]))
            if len(scheds) > 150:
                scheds = rng.sample(scheds, 150)
            for s in scheds:
                cases.append({"kind": "threads", "vals": c["vals"], "sched": s, "_exh": True})
    for _ in range(150 if tier == "quick" else 1500):
        cases.append(thread_case(rng, rng.randint(2, 8), rng.randint(1, 3)))
    if tier == "thorough":
        # (the model prints every held value after every step: quadratic; the 50000-value run is the BIG mode below)
        big = {"kind": "seq", "sessions": [[("r", i % 2, i) for i in range(400)]]}
        cases.append(big)
    return cases


def thread_cases(rng, tier):
    out = []
    for (nth, per) in [(2, 1), (2, 2), (3, 1)]:
        for _ in range(2):
            c = thread_case(rng, nth, per, sched=[])
            total = sum(len(v) for v in c["vals"])
            counts = [len(v) * total for v in c["vals"]]
            scheds = list(B.all_schedules([min(x, 3) for x in counts]))
            if len(scheds) > 150:
                scheds = rng.sample(scheds, 150)
            for s in scheds:
                out.append({"kind": "threads", "vals": c["vals"], "sched": s, "_exh": True})
    for _ in range(150 if tier == "quick" else 1500):
        out.append(thread_case(rng, rng.randint(2, 8), rng.randint(1, 3)))
    return out


def concurrent_lending(rng, tier, prop):
    """threads lending values through ONE shared &Unimock under the controlled scheduler (one step per OnceCell::try_insert), all
    interleavings for the small programs: every thread must read back its own values, all addresses distinct, nothing lost.
    -> (number of cases, replay payload or None)"""
    binary = C.build_harness("chain")
    cases = thread_cases(rng, tier)
    impl = C.run_harness(binary, [harness_line(c, i) for i, c in enumerate(cases)], timeout=900)
    model = C.coq_eval_cases(PRELUDE, [coq_case(c) for c in cases], show="lines_of_chcases", shard=40)
    def results(o):
        return [l for l in o if not re.match(r"t\d+ \w+ ", l)]
    bad = [i for i in range(len(cases)) if project(impl[i]) != project(model[i])]
    res_bad = [i for i in bad if results(impl[i]) != results(model[i])]
    if not bad:
        return len(cases), None
    payload = {"property": prop, "part": "lending"}
    if res_bad:
        i = min(res_bad, key=lambda k: len(harness_line(cases[k], 0)))
        payload.update({"theorem_or_correspondence": f"correspondence {prop} (concurrent lending part): values read back / live counts vs the chain model (C13_concurrent_pushes)",
                        "case": {k: v for k, v in cases[i].items() if not k.startswith("_")}, "harness_line": harness_line(cases[i], "replay"),
                        "expected_by_model": model[i], "observed_on_implementation": impl[i], "disagreeing_cases": len(bad)})
        return len(cases), payload
    stress = C.run_harness(binary, ["case stress STRESS 8 4 %d" % (300 if tier == "quick" else 2000)], timeout=900)[0]
    if any(l.startswith("stress:FAIL") for l in stress):
        payload.update({"theorem_or_correspondence": "real-thread stress on a shared &Unimock (found while searching after the try_insert trace stopped matching the model)",
                        "case": {"kind": "stress", "line": "case stress STRESS 8 4 2000"}, "observed_on_implementation": stress})
        return len(cases), payload
    i = bad[0]
    payload.update({"theorem_or_correspondence": "trace correspondence (concurrent lending part): the sequence of OnceCell::try_insert steps differs from the model's cursor walk "
                                                 "(results agreed on every schedule tried and the real-thread stress found nothing)",
                    "closest_case": harness_line(cases[i], "replay"), "expected_by_model": model[i], "observed_on_implementation": impl[i], "no_input": True})
    return len(cases), payload


def replay_lending(prop, payload, path):
    binary = C.build_harness("chain")
    case = payload.get("case")
    if case is None:
        print("replay file names an obligation, not an input:", payload.get("theorem_or_correspondence")); return 1
    if case.get("kind") == "stress":
        out = C.run_harness(binary, [case["line"]], timeout=900)[0]
        print(out)
        if any(l.startswith("stress:FAIL") for l in out):
            C.violation(prop, path); return 1
        print("stress found nothing"); return 0
    impl = C.run_harness(binary, [harness_line(case, 0)])
    model = C.coq_eval_cases(PRELUDE, [coq_case(case)], show="lines_of_chcases")
    print("model:", model[0]); print("impl :", impl[0])
    if project(impl[0]) != project(model[0]):
        C.violation(prop, path); return 1
    print("agree"); return 0


def nontrivial(c):
    if c["kind"] == "seq":
        return any(sum(1 for o in ops if o[0] == "r") >= 3 for ops in c["sessions"])
    return len(c["vals"]) >= 2 and len(c["sched"]) >= 2 and len(set(c["sched"][:4])) >= 2


def run(tier, seed):
    t0 = time.time()
    rng = random.Random(seed)
    obligations = C.proof_obligations("C13", MODULE, THEOREMS)
    # forbid(unsafe_code) must still be there: memory safety itself is delegated to it
    unsafe_ok = all("#![forbid(unsafe_code)]" in open(p).read() for p in
                    [C.REPO + "/src/lib.rs", C.REPO + "/unimock_macros/src/lib.rs"])
    binary = C.build_harness("chain")
    cases = gen_cases(rng, tier)
    impl = C.run_harness(binary, [harness_line(c, i) for i, c in enumerate(cases)], timeout=900)
    model = C.coq_eval_cases(PRELUDE, [coq_case(c) for c in cases], show="lines_of_chcases", shard=40)
    bad = [i for i in range(len(cases)) if project(impl[i]) != project(model[i])]
    # the sessions whose original ends by report(): also on a build WITHOUT the mock-std feature, where `impl Termination for Unimock`
    # is a different function (no TerminationMock in front of the teardown)
    rep = [i for i, c in enumerate(cases) if c["kind"] == "seq" and (c.get("unwind") or [None])[0] == "report"]
    if rep and not bad:
        plain = C.build_harness("chain", ["plain-build"])
        impl2 = C.run_harness(plain, [harness_line(cases[i], k) for k, i in enumerate(rep)], timeout=900)
        for k, i in enumerate(rep):
            if project(impl2[k]) != project(model[i]):
                bad.append(i)
                impl[i] = impl2[k] + ["(build: std without mock-std)"]
    # thousands of values on a 256 KiB stack: lending, make_mut and the final release must all be iterative
    nbig = 5000 if tier == "quick" else 50000
    big = C.run_harness(binary, [f"case big BIG {nbig} 64"], timeout=900, jobs=1)[0]
    big_ok = big == [f"big sum={nbig * (nbig - 1) // 2} during={nbig} end=0"]
    def results(o):
        # everything but the trace of the scheduler's announced steps (`t<k> <Op> <location>`)
        return [l for l in o if not re.match(r"t\d+ \w+ ", l)]
    res_bad = [i for i in bad if results(impl[i]) != results(model[i])]
    stress = None
    if tier == "thorough" or (bad and not res_bad):
        # search / support: free-running real threads (not a proof)
        stress = C.run_harness(binary, ["case stress STRESS 8 4 %d" % (300 if tier == "quick" else 2000)], timeout=900)[0]
    distinct = {canon({k: v for k, v in c.items() if not k.startswith("_")}): c for c in cases}
    nt = sum(1 for c in distinct.values() if nontrivial(c))
    dist = collections.Counter()
    for c in cases:
        dist[c["kind"] + (":all-interleavings" if c.get("_exh") else "")] += 1
        if c["kind"] == "seq":
            dist["values-lent"] += sum(len(o) for o in c["sessions"])
            for ops in c["sessions"]:
                for o in ops:
                    dist["op:" + o[0]] += 1
        else:
            dist[f"threads={len(c['vals'])}"] += 1
    cov = {
        "obligations": len(obligations) + 2, "discharged": len(obligations) + (0 if bad else 1) + (1 if unsafe_ok else 0),
        "checker_cmd": f"make -C /verif/coq ; ./check C13 --tier {tier}",
        "trusted_base": C.TRUSTED_BASE + ["memory safety itself is delegated to #![forbid(unsafe_code)] (presence checked textually) and to once_cell"],
        "theorems": obligations + [{"theorem": "#![forbid(unsafe_code)] present in src/lib.rs and unimock_macros/src/lib.rs", "assumptions": "textual"}],
        "correspondence_obligation": "every step: contents read through all held references, live counts, try_insert trace = chain model",
        "evaluations": len(cases), "distinct_nontrivial": nt, "rule": RULE,
        "samples": [harness_line(cases[0], "sample")[:400], harness_line(cases[-1], "sample")[:400]], "distribution": dict(dist),
    }
    cov["big_chain_on_small_stack"] = big
    if stress is not None:
        cov["real_thread_stress"] = stress
    stress_failed = stress is not None and any(l.startswith("stress:FAIL") for l in stress)
    if not big_ok and not bad:
        payload = {"property": "C13", "seed": seed, "theorem_or_correspondence": "C13_pushes_keep_earlier / C13_drop_releases_all on a long chain: "
                   f"{nbig} values lent and released - on a thread with a 64 KiB stack",
                   "case": {"kind": "big", "line": f"case big BIG {nbig} 64"},
                   "expected": f"big sum={nbig * (nbig - 1) // 2} during={nbig} end=0", "observed_on_implementation": big}
        path = C.write_replay("C13", seed, payload)
        cov["discharged"] -= 1
        C.write_evidence("C13", tier, seed, cov, time.time() - t0, 1)
        C.violation("C13", path)
        return 1
    if bad or not unsafe_ok or stress_failed:
        if res_bad:
            i = min(res_bad, key=lambda k: len(harness_line(cases[k], 0)))
            payload = {"property": "C13", "seed": seed, "theorem_or_correspondence": "correspondence C13: value chain vs model",
                       "case": {k: v for k, v in cases[i].items() if not k.startswith("_")}, "harness_line": harness_line(cases[i], "replay"),
                       "expected_by_model": model[i], "observed_on_implementation": impl[i], "disagreeing_cases": len(bad)}
            no_input = False
        elif stress_failed:
            payload = {"property": "C13", "seed": seed, "theorem_or_correspondence": "real-thread stress on a shared &Unimock (found while searching after the try_insert trace stopped matching the model)"
                       if bad else "real-thread stress on a shared &Unimock",
                       "case": {"kind": "stress", "line": "case stress STRESS 8 4 2000"}, "observed_on_implementation": stress}
            no_input = False
        elif bad:
            i = bad[0]
            payload = {"property": "C13", "seed": seed,
                       "theorem_or_correspondence": "trace correspondence C13: the sequence of OnceCell::try_insert steps differs from the model's cursor walk "
                                                    "(results agreed on every schedule tried and the real-thread stress found nothing)",
                       "closest_case": harness_line(cases[i], "replay"), "expected_by_model": model[i], "observed_on_implementation": impl[i]}
            no_input = True
        else:
            payload = {"property": "C13", "seed": seed, "theorem_or_correspondence": "#![forbid(unsafe_code)] is no longer present: memory safety of lent references is not established"}
            no_input = True
        path = C.write_replay("C13", seed, payload)
        C.write_evidence("C13", tier, seed, cov, time.time() - t0, 1)
        C.violation("C13", path, no_input=no_input)
        return 1
    C.write_evidence("C13", tier, seed, cov, time.time() - t0, 0,
                     assumptions=["sequentially consistent scheduler; agreement on the generated sequences and schedules only"])
    print(f"C13: {len(obligations)} theorems closed; {len(cases)} co-executions agree ({time.time()-t0:.1f}s)")
    return 0


def replay(path):
    payload = json.load(open(path))
    case = payload.get("case")
    if case is None:
        print("replay file names an obligation:", payload.get("theorem_or_correspondence")); return 1
    binary = C.build_harness("chain")
    if case.get("kind") == "big":
        out = C.run_harness(binary, [case["line"]], timeout=900, jobs=1)[0]
        print(out)
        if out != [payload["expected"]]:
            C.violation("C13", path); return 1
        print("as expected"); return 0
    if case.get("kind") == "stress":
        out = C.run_harness(binary, [case["line"]], timeout=900)[0]
        print(out)
        if any(l.startswith("stress:FAIL") for l in out):
            C.violation("C13", path); return 1
        print("stress passed"); return 0
    impl = C.run_harness(binary, [harness_line(case, 0)])
    model = C.coq_eval_cases(PRELUDE, [coq_case(case)], show="lines_of_chcases")
    print("model:", model[0]); print("impl :", impl[0])
    if project(impl[0]) != project(model[0]):
        C.violation("C13", path); return 1
    print("agree"); return 0

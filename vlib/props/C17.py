"""C17 -- composite returns reproduce the configured value shape-for-shape.

Return types are drawn from the grammar {Option, Result, Vec, Poll, 1-5-tuples} over {C, N, &C, &N, &str, &[C],
&'static ..} (depth <= 3).  The Coq model (Macro/Output.v: the macro's syntactic kind analysis + the impl table of
src/output/**) predicts for every type whether `#[unimock]` + `returns(v)` type-checks, which OutputKind the macro
writes, the input type of `returns` and whether the multi-use path exists.  rustc checks the acceptance prediction
(accepted types: one generated crate; rejected ones: one `rustc --emit=metadata` each, in parallel), the OutputKind is
read back from the compiled program (type_name), and for every accepted type values covering every variant and
element counts 0..4 are configured through the single-use and the multi-use paths and requested three times; the
observed lines must be the ones the model computes (vm_compute)."""
import collections, glob, json, os, random, re, shutil, subprocess, tempfile, time
from concurrent.futures import ThreadPoolExecutor
from .. import common as C

MODULE = "Props.C17"
THEOREMS = ["C17_accepted_has_kind", "C17_multi_use", "C17_single_use", "C17_shape", "C17_nonvacuous"]
PRELUDE = "From Unimock Require Import Macro.Output.\nOpen Scope N_scope.\n"
HARNESS = "outputs"      # C12 runs the same machinery in its own crate (harness/outputs12)

RULE = ("return types from the grammar Option/Result/Vec/Poll/tuples(1-5) x {C, N(not Clone), &C, &N, &str, &[C], &'static C, "
        "&'static str, &'static [C], ()} to depth 3: all leaf and depth-1 types, plus random deeper ones (biased to the shapes the "
        "macro accepts, plus free and mutated ones that probe the acceptance boundary); accepted types that borrow from self also with the "
        "receiver's lifetime written out (`fn f<'s>(&'s self) -> Option<&'s C>`). Per type the model predicts acceptance, "
        "OutputKind, input type of returns() and availability of the multi-use path; acceptance is checked with rustc (batch crate / one "
        "rustc per rejected type), the OutputKind against std::any::type_name of the generated MockFn. Per accepted type: values "
        "covering every variant at every choice point and Vec lengths 0..4 (+ random ones) with distinct leaf ids, each configured via "
        "some_call.returns (3 requests), next_call.returns (1), each_call.returns (3), some_call.returns.n_times(3) (3), some_call.returns.at_least_times(1) (3), "
        "each_call.returns.at_least_times(1) (3), next_call.returns.n_times(2) (2) and some_call.returns.n_times(1) (1) and printed "
        "structurally (references marked, their addresses compared across requests). distinct = (type, value); non-trivial = the kind is "
        "not a plain Owning/Lending/StaticRef leaf (a Shallow or Deep conversion ran) ")

LEAF_COQ = {"C": "LC", "N": "LN", "Str": "LStr", "Sl": "LSlice"}
LEAF_RUST = {"C": "C", "N": "N", "Str": "str", "Sl": "[C]"}


# ---------------------------------------------------------------- types
def rust_ty(t, named=False, param=False, lt=False):
    """named: borrows of self are spelled with the receiver's NAMED lifetime (`fn f<'s>(&'s self) -> .. &'s T ..`) instead of
    the elided one; for the macro's analysis both are the same borrow of self (output.rs analyze_lifetime), model: LtElided"""
    k = t[0]
    if k == "own": return t[1]
    if k == "ref":
        leaf = "W<'_>" if lt and t[1] == "e" and t[2] == "C" else LEAF_RUST[t[2]]
        return (("&'s " if named else "&") if t[1] == "e" else ("&'a " if param else "&'static ")) + leaf
    if k == "opt": return f"Option<{rust_ty(t[1], named, param, lt)}>"
    if k == "vec": return f"Vec<{rust_ty(t[1], named, param, lt)}>"
    if k == "poll": return f"Poll<{rust_ty(t[1], named, param, lt)}>"
    if k == "res": return f"Result<{rust_ty(t[1], named, param, lt)}, {rust_ty(t[2], named, param, lt)}>"
    if k == "tup":
        return "(" + ", ".join(rust_ty(x, named, param, lt) for x in t[1]) + ("," if len(t[1]) == 1 else "") + ")"
    raise ValueError(t)


def sig_of(rust):
    if "&'a " in rust:
        # the result borrows from a PARAMETER (lifetime 'a names an input): for the macro that is a reference the mock cannot lend from
        # itself - output.rs determine_reference_ownership classifies it like `&'static` (the configured value must be 'static)
        return f"fn f<'a>(&self, p: &'a C) -> {rust}"
    if rust.endswith(TYPED):
        # the receiver written as a typed pattern: still `&self`, the elided borrows of the result are borrows of self
        return f"fn f(self: &Self) -> {rust}"
    if "&'t " in rust:
        # the receiver's lifetime is ALSO written on a later parameter: still a borrow of self (the receiver is the first parameter with it)
        return f"fn f<'t>(&'t self, _q: &'t C) -> {rust}"
    if "&'r " in rust:
        # the receiver's lifetime is declared by the TRAIT (`trait T<'r>`), not by the method
        return f"fn f(&'r self) -> {rust}"
    return f"fn f<'s>(&'s self) -> {rust}" if "&'s " in rust else f"fn f(&self) -> {rust}"


TYPED = " /* typed receiver */"


def typed_variants(infos, limit):
    """for accepted types with elided borrows: the same type on a method whose receiver is spelled `self: &Self`"""
    out = []
    for i in infos:
        if i["accept"] and not i.get("named") and not i.get("param") and not i.get("lt") and has_elided_ref(i["ty"]) and len(out) < limit:
            out.append(dict(i, rust=i["rust"] + TYPED, typed=True))
    return out


def trait_generics(rust):
    return "<'r>" if "&'r " in rust else ""


def has_param(rust):
    return "&'a " in rust or "&'t " in rust


def has_elided_ref(t):
    return (t[0] == "ref" and t[1] == "e") or any(has_elided_ref(x) for x in t[1:] if isinstance(x, tuple)) or \
        (t[0] == "tup" and any(has_elided_ref(x) for x in t[1]))


def leaves_of(t):
    if t[0] in ("own", "ref"): return [t]
    if t[0] == "tup": return [l for x in t[1] for l in leaves_of(x)]
    return [l for x in t[1:] if isinstance(x, tuple) for l in leaves_of(x)]


def elided_ref_directly_in_tuple(t):
    if t[0] == "tup":
        return any(x == ("ref", "e", "C") or elided_ref_directly_in_tuple(x) for x in t[1])
    return any(elided_ref_directly_in_tuple(x) for x in t[1:] if isinstance(x, tuple))


def lt_variants(infos, limit):
    """for accepted types in which the cloneable leaf C occurs only behind elided references: the same type with `&W<'_>` in its place -
    a leaf type that carries a lifetime parameter of its own (anonymous `'_` inside a path type).  The borrow is still a borrow of self."""
    out = []
    for i in infos:
        ls = leaves_of(i["ty"])
        # (a tuple with `&W<'_>` as a direct element does not compile on the unchanged tree - E0637 "`'_` cannot be used here" in the
        # generated kind type: loud, not a wrong value; recorded in DESIGN.md section 14 among the limitations outside the properties)
        if i["accept"] and not i.get("named") and not i.get("param") and any(l == ("ref", "e", "C") for l in ls) and \
                not elided_ref_directly_in_tuple(i["ty"]) and \
                not any(l in (("own", "C"), ("ref", "s", "C")) or l[-1] == "Sl" for l in ls) and len(out) < limit:
            out.append(dict(i, rust=rust_ty(i["ty"], lt=True), lt=True))
    return out


def param_variants(infos, limit):
    """for accepted types whose references are all `&'static`: the same type with the references borrowed from a parameter"""
    out = []
    for i in infos:
        r = rust_ty(i["ty"], param=True)
        if i["accept"] and not i.get("named") and r != i["rust"] and not has_elided_ref(i["ty"]) and len(out) < limit:
            out.append(dict(i, rust=r, param=True))
    return out


def named_variants(infos, limit):
    """for accepted types that borrow from self: the same type with the receiver's lifetime written out"""
    out = []
    for i in infos:
        r = rust_ty(i["ty"], named=True)
        if i["accept"] and r != i["rust"] and len(out) < limit:
            # three spellings in turn: lifetime declared by the method; also written on a second parameter; declared by the trait
            lt = ["'s", "'t", "'r"][len(out) % 3]
            out.append(dict(i, rust=r.replace("&'s ", f"&{lt} "), named=True))
    return out


def coq_ty(t):
    k = t[0]
    if k == "own": return f"TOwn {LEAF_COQ[t[1]]}"
    if k == "ref": return f"TRef {'LtElided' if t[1] == 'e' else 'LtStatic'} {LEAF_COQ[t[2]]}"
    if k == "opt": return f"TOpt ({coq_ty(t[1])})"
    if k == "vec": return f"TVec ({coq_ty(t[1])})"
    if k == "poll": return f"TPoll ({coq_ty(t[1])})"
    if k == "res": return f"TRes ({coq_ty(t[1])}) ({coq_ty(t[2])})"
    if k == "tup": return "TTup [" + "; ".join(coq_ty(x) for x in t[1]) + "]"
    raise ValueError(t)


def natural_in(t):
    """what a user would pass to returns(): owned data for `&T`, the reference itself for `&'static T`"""
    k = t[0]
    if k == "own": return t[1]
    if k == "ref": return t[2] if t[1] == "e" else "&'static " + LEAF_RUST[t[2]]
    if k == "opt": return f"Option<{natural_in(t[1])}>"
    if k == "vec": return f"Vec<{natural_in(t[1])}>"
    if k == "poll": return f"Poll<{natural_in(t[1])}>"
    if k == "res": return f"Result<{natural_in(t[1])}, {natural_in(t[2])}>"
    if k == "tup":
        return "(" + ", ".join(natural_in(x) for x in t[1]) + ("," if len(t[1]) == 1 else "") + ")"


def depth(t):
    k = t[0]
    if k in ("own", "ref"): return 0
    if k == "tup": return 1 + max([depth(x) for x in t[1]] + [0]) if t[1] else 0
    return 1 + max(depth(x) for x in t[1:])


def containers(t, acc):
    k = t[0]
    if k in ("own", "ref"):
        acc["leaf:" + (t[1] if k == "own" else ("&" if t[1] == "e" else "&'static ") + t[2])] += 1
        return
    if k == "tup":
        acc[f"tuple{len(t[1])}"] += 1
        for x in t[1]: containers(x, acc)
        return
    acc[k] += 1
    for x in t[1:]: containers(x, acc)


UNIT = ("tup", [])
OWN = [("own", "C"), ("own", "N")]
REF_E = [("ref", "e", l) for l in ("C", "N", "Str", "Sl")]
REF_S = [("ref", "s", l) for l in ("C", "Str", "Sl", "N")]
LEAVES = OWN + REF_E + REF_S[:2]


def ref_free(rng, d):
    """a type without borrowed parts: owned as a whole"""
    if d <= 0 or rng.random() < 0.3:
        return rng.choice(OWN + OWN + REF_S + [UNIT])
    c = rng.choice(["opt", "res", "vec", "poll", "tup"])
    if c == "res": return ("res", ref_free(rng, d - 1), ref_free(rng, d - 1))
    if c == "tup": return ("tup", [ref_free(rng, d - 1) for _ in range(rng.randint(1, 4))])
    return (c, ref_free(rng, d - 1))


def err_ty(rng):
    r = rng.random()
    if r < 0.5: return rng.choice(OWN)
    if r < 0.6: return UNIT
    if r < 0.75: return rng.choice(REF_S)
    if r < 0.9: return rng.choice(REF_E)          # the macro renames it to 'static: accepted, wants a 'static input
    return ("tup", [rng.choice(OWN + REF_E[:1]) for _ in range(rng.randint(1, 3))])


def good_k(rng, d):
    """Shallow<Option<&T>> / Shallow<Result<&T,E>> and Deep<..> over them"""
    if d <= 1 or rng.random() < 0.3:
        if rng.random() < 0.5: return ("opt", rng.choice(REF_E))
        return ("res", rng.choice(REF_E), err_ty(rng))
    c = rng.choice(["opt", "poll", "vec", "res"])
    if c == "res": return ("res", good_k(rng, d - 1), good_k(rng, d - 1))
    return (c, good_k(rng, d - 1))


def good_top(rng, d):
    r = rng.random()
    if r < 0.4: return good_k(rng, d)
    if r < 0.45: return ("vec", rng.choice(REF_E))
    if r < 0.8:
        n = rng.randint(1, 4)
        el = []
        for _ in range(n):
            q = rng.random()
            if q < 0.35: el.append(rng.choice(REF_E))
            elif q < 0.55: el.append(rng.choice(OWN))
            elif q < 0.6: el.append(UNIT)
            elif q < 0.7: el.append(("tup", [rng.choice(OWN + REF_S[:2]) for _ in range(rng.randint(1, 3))]))
            elif d >= 2: el.append(good_k(rng, d - 1))
            else: el.append(rng.choice(REF_E))
        return ("tup", el)
    return ref_free(rng, d)


def free_ty(rng, d):
    if d <= 0 or rng.random() < 0.2:
        return rng.choice(LEAVES + [UNIT])
    c = rng.choice(["opt", "res", "vec", "poll", "tup"])
    if c == "res": return ("res", free_ty(rng, d - 1), free_ty(rng, d - 1))
    if c == "tup": return ("tup", [free_ty(rng, d - 1) for _ in range(rng.randint(1, 5))])
    return (c, free_ty(rng, d - 1))


def mutate(rng, t, d):
    """replace one subterm by a free one (a near miss of an accepted shape)"""
    k = t[0]
    if k in ("own", "ref") or rng.random() < 0.25 or (k == "tup" and not t[1]):
        return free_ty(rng, min(d, 1))
    if k == "tup":
        i = rng.randrange(len(t[1]))
        if rng.random() < 0.15 and len(t[1]) == 4:
            return ("tup", t[1] + [rng.choice(LEAVES)])
        return ("tup", t[1][:i] + [mutate(rng, t[1][i], d - 1)] + t[1][i + 1:])
    if k == "res":
        if rng.random() < 0.2: return ("res", t[2], t[1])
        if rng.random() < 0.5: return ("res", mutate(rng, t[1], d - 1), t[2])
        return ("res", t[1], mutate(rng, t[2], d - 1))
    return (k, mutate(rng, t[1], d - 1))


def depth2_family():
    """every container directly over every kind of MIXED inner type (an owned, non-Clone part next to a borrowed one): the conversions
    that must pass an exhausted inner slot on (`?`) instead of producing a value"""
    rc, rs, n, c = ("ref", "e", "C"), ("ref", "e", "Str"), ("own", "N"), ("own", "C")
    inners = [("res", rc, n), ("res", rs, c), ("tup", [rc, n]), ("opt", n), ("vec", ("res", rc, n)), ("poll", ("res", rc, n))]
    out = []
    for i in inners:
        out += [("opt", i), ("vec", i), ("poll", i), ("res", i, n), ("res", rc, i), ("tup", [i, rs])]
    return [t for t in out if depth(t) <= 3]


def gen_types(rng, tier):
    ts = [("own", "C"), ("own", "N"), UNIT] + REF_E + REF_S + depth2_family()
    for c in ("opt", "vec", "poll"):
        ts += [(c, l) for l in LEAVES]
    pairs = [(a, b) for a in LEAVES for b in LEAVES]
    if tier == "quick":
        pairs = [p for p in pairs if p[0][0] == "ref" and p[0][1] == "e"] + rng.sample([p for p in pairs if not (p[0][0] == "ref" and p[0][1] == "e")], 12)
    ts += [("res", a, b) for a, b in pairs]
    for n in range(1, 6):
        for _ in range(3):
            ts.append(("tup", [rng.choice(LEAVES) for _ in range(n)]))
    n_good, n_free, n_mut = (70, 25, 35) if tier == "quick" else (300, 100, 150)
    goods = []
    for _ in range(n_good):
        goods.append(good_top(rng, rng.choice([2, 2, 3, 3])))
    ts += goods
    ts += [free_ty(rng, rng.choice([2, 3])) for _ in range(n_free)]
    ts += [mutate(rng, rng.choice(goods), 3) for _ in range(n_mut)]
    out, seen = [], set()
    for t in ts:
        s = rust_ty(t)
        if s not in seen and depth(t) <= 3:
            seen.add(s)
            out.append(t)
    return out


# ---------------------------------------------------------------- input types and values
def parse_in(s):
    """the input type of returns() as the model prints it -> tree"""
    pos = [0]

    def skip():
        while pos[0] < len(s) and s[pos[0]] == " ": pos[0] += 1

    def p():
        skip()
        for kw, tag in (("Option<", "opt"), ("Vec<", "vec"), ("Poll<", "poll")):
            if s.startswith(kw, pos[0]):
                pos[0] += len(kw)
                a = p(); skip()
                assert s[pos[0]] == ">", (s, pos[0]); pos[0] += 1
                return (tag, a)
        if s.startswith("Result<", pos[0]):
            pos[0] += 7
            a = p(); skip(); assert s[pos[0]] == ","; pos[0] += 1
            b = p(); skip(); assert s[pos[0]] == ">"; pos[0] += 1
            return ("res", a, b)
        if s.startswith("&'static ", pos[0]):
            pos[0] += 9
            for name, l in (("[C]", "Sl"), ("str", "Str"), ("C", "C"), ("N", "N")):
                if s.startswith(name, pos[0]):
                    pos[0] += len(name)
                    return ("static", l)
            raise ValueError(s)
        if s[pos[0]] == "(":
            pos[0] += 1
            el = []
            while True:
                skip()
                if s[pos[0]] == ")":
                    pos[0] += 1
                    return ("tup", el)
                el.append(p()); skip()
                if s[pos[0]] == ",": pos[0] += 1
        for name in ("Str", "Sl", "C", "N"):
            if s.startswith(name, pos[0]):
                pos[0] += len(name)
                return ("data", name)
        raise ValueError((s, pos[0]))

    r = p()
    assert pos[0] == len(s), (s, pos[0])
    return r


def choice_points(it, path=()):
    """(path, alternatives) of every variant / length choice of an input type"""
    k = it[0]
    out = []
    if k == "opt": out.append((path, ["S", "N"])); out += choice_points(it[1], path + (0,))
    elif k == "poll": out.append((path, ["R", "P"])); out += choice_points(it[1], path + (0,))
    elif k == "res":
        out.append((path, ["O", "E"]))
        out += choice_points(it[1], path + (0,)) + choice_points(it[2], path + (1,))
    elif k == "vec": out.append((path, [0, 1, 2, 3, 4])); out += choice_points(it[1], path + (0,))
    elif k == "tup":
        for i, x in enumerate(it[1]): out += choice_points(x, path + (i,))
    return out


def gen_value(rng, it, fresh, force, path=()):
    """a value of input type `it`; `force` maps a path to the alternative to take there; choices that
    lead towards a forced path are taken so that it is reached"""
    k = it[0]
    toward = [p for p in force if p[:len(path)] == path and len(p) > len(path)]
    nxt = {p[len(path)] for p in toward}
    if k == "data":
        if it[1] == "Sl": return ("Sl", [fresh() for _ in range(rng.choice([0, 1, 2, 2, 3]))])
        return (it[1], fresh())
    if k == "static": return ("static", gen_value(rng, ("data", it[1]), fresh, force, path))
    if k == "opt":
        alt = force.get(path) or ("S" if nxt else rng.choice(["S", "S", "N"]))
        return ("some", gen_value(rng, it[1], fresh, force, path + (0,))) if alt == "S" else ("none",)
    if k == "poll":
        alt = force.get(path) or ("R" if nxt else rng.choice(["R", "R", "P"]))
        return ("ready", gen_value(rng, it[1], fresh, force, path + (0,))) if alt == "R" else ("pending",)
    if k == "res":
        alt = force.get(path) or ("O" if 0 in nxt else "E" if 1 in nxt else rng.choice(["O", "E"]))
        if alt == "O": return ("ok", gen_value(rng, it[1], fresh, force, path + (0,)))
        return ("err", gen_value(rng, it[2], fresh, force, path + (1,)))
    if k == "vec":
        n = force[path] if path in force else (rng.randint(1, 3) if nxt else rng.choice([0, 1, 2, 3, 4]))
        return ("vec", [gen_value(rng, it[1], fresh, force, path + (0,)) for _ in range(n)])
    if k == "tup":
        return ("tup", [gen_value(rng, x, fresh, force, path + (i,)) for i, x in enumerate(it[1])])
    raise ValueError(it)


def values_for(rng, it, tier):
    vals = []
    def one(force):
        ctr = [rng.randrange(1, 50)]
        def fresh():
            ctr[0] += rng.randint(1, 3)
            return ctr[0]
        return gen_value(rng, it, fresh, force)
    cps = choice_points(it)
    for path, alts in cps:
        for a in alts:
            vals.append(one({path: a}))
    for _ in range(3 if tier == "quick" else 8):
        vals.append(one({}))
    out, seen = [], set()
    for v in vals:
        s = json.dumps(v)
        if s not in seen:
            seen.add(s); out.append(v)
    return out


def tokens(v):
    k = v[0]
    if k in ("C", "N", "Str"): return [str(v[1])]
    if k == "Sl": return [f"V{len(v[1])}"] + [str(x) for x in v[1]]
    if k == "static": return tokens(v[1])
    if k == "some": return ["S"] + tokens(v[1])
    if k == "none": return ["N"]
    if k == "ok": return ["O"] + tokens(v[1])
    if k == "err": return ["E"] + tokens(v[1])
    if k == "ready": return ["R"] + tokens(v[1])
    if k == "pending": return ["P"]
    if k == "vec": return [f"V{len(v[1])}"] + [t for x in v[1] for t in tokens(x)]
    if k == "tup": return [t for x in v[1] for t in tokens(x)]
    raise ValueError(v)


def coq_val(v):
    k = v[0]
    if k == "C": return f"VC {v[1]}"
    if k == "N": return f"VN {v[1]}"
    if k == "Str": return f"VStr {v[1]}"
    if k == "Sl": return "VSlice [" + "; ".join(str(x) for x in v[1]) + "]"
    if k == "static": return f"VStatic ({coq_val(v[1])})"
    if k == "some": return f"VSome ({coq_val(v[1])})"
    if k == "none": return "VNone"
    if k == "ok": return f"VOk ({coq_val(v[1])})"
    if k == "err": return f"VErr ({coq_val(v[1])})"
    if k == "ready": return f"VReady ({coq_val(v[1])})"
    if k == "pending": return "VPending"
    if k == "vec": return "VVec [" + "; ".join(coq_val(x) for x in v[1]) + "]"
    if k == "tup": return "VTup [" + "; ".join(coq_val(x) for x in v[1]) + "]"
    raise ValueError(v)


def value_stats(v, acc):
    k = v[0]
    if k in ("some", "none", "ok", "err", "ready", "pending"): acc["variant:" + k] += 1
    if k == "vec": acc[f"vec_len={len(v[1])}"] += 1
    if k == "tup": acc[f"tuple_len={len(v[1])}"] += 1
    if k in ("some", "ok", "err", "ready", "static"): value_stats(v[1], acc)
    if k in ("vec", "tup"):
        for x in v[1]: value_stats(x, acc)


def shrink_value(v):
    """structurally smaller values of the same type"""
    k = v[0]
    out = []
    if k in ("vec",):
        for i in range(len(v[1])):
            out.append(("vec", v[1][:i] + v[1][i + 1:]))
        for i, x in enumerate(v[1]):
            out += [("vec", v[1][:i] + [y] + v[1][i + 1:]) for y in shrink_value(x)]
    elif k == "tup":
        for i, x in enumerate(v[1]):
            out += [("tup", v[1][:i] + [y] + v[1][i + 1:]) for y in shrink_value(x)]
    elif k in ("some", "ok", "err", "ready", "static"):
        out += [(k, y) for y in shrink_value(v[1])]
    elif k == "Sl":
        for i in range(len(v[1])):
            out.append(("Sl", v[1][:i] + v[1][i + 1:]))
    return out


# ---------------------------------------------------------------- model side: per type
def analyse_types(types):
    """model verdict per type: accepted?, multi-use?, OutputKind, input type of returns()"""
    res = C.coq_eval_cases(PRELUDE, [coq_ty(t) for t in types], show="lines_of_types", shard=200)
    out = []
    for t, lines in zip(types, res):
        m = re.match(r"^([AR]) ([M-]) (.*) \| (.*)$", lines[0])
        if not m:
            raise C.CheckFailure("model type analysis printed an unexpected line", lines[0])
        out.append({"ty": t, "rust": rust_ty(t), "accept": m.group(1) == "A", "multi": m.group(2) == "M",
                    "kind": m.group(3), "in": m.group(4)})
    return out


# ---------------------------------------------------------------- Rust side
HDR = ("#![allow(dead_code, unused_imports)]\nuse unimock::*;\nuse std::task::Poll;\n"
       "#[derive(Clone, Debug, PartialEq, Eq)] pub struct C(pub u32);\n#[derive(Debug, PartialEq, Eq)] pub struct N(pub u32);\n"
       "pub type Str = String;\npub type Sl = Vec<C>;\npub static PARAM: C = C(0);\n"
       "#[derive(Clone, Debug, PartialEq, Eq)] pub struct W<'a>(pub u32, pub std::marker::PhantomData<&'a ()>);\n")


def rust_in(rust, in_ty):
    """the input type as Rust spells it: the lifetime-carrying leaf of the `&W<'_>` variants is W<'static> there (the model says C)"""
    return re.sub(r"\bC\b", "W<'static>", in_ty) if "W<'_>" in rust else in_ty


def write_gen_rs(infos):
    """the accepted types, all in ONE crate"""
    parts = ["// generated by vlib/props/C17.py -- do not edit", "use crate::obs::*;", "use std::task::Poll;", "use unimock::*;", ""]
    arms = []
    for k, inf in enumerate(infos):
        par = has_param(inf["rust"])
        tg = "<'_>" if trait_generics(inf["rust"]) else ""
        blk = lambda tag, n, chain, par=par: (f"    {{ let v: In = Build::build(&mut Toks {{ t: toks, pos: 0 }}); "
                                              f"let u = Unimock::new(M{k}::f.{chain.replace('matching!()', 'matching!(_)') if par else chain}); "
                                              f"crate::request!(out, \"{tag}\", {n}, u, T{k}{tg}{', &PARAM' if par else ''}); }}")
        body = [f"#[unimock(api = M{k})]", f"pub trait T{k}{trait_generics(inf['rust'])} {{ {sig_of(inf['rust'])}; }}",
                f"pub fn run{k}(toks: &[String], out: &mut Vec<String>) {{", f"    type In = {rust_in(inf['rust'], inf['in'])};",
                f"    if toks.first().map(|s| s.as_str()) == Some(\"KIND\") {{ out.push(format!(\"K {{}}\", std::any::type_name::<<M{k}::f as MockFn>::OutputKind>())); return; }}",
                blk("S", 3, "some_call(matching!()).returns(v)"), blk("O", 1, "next_call(matching!()).returns(v)")]
        if inf["multi"]:
            body += [blk("M", 3, "each_call(matching!()).returns(v)"), blk("T", 3, "some_call(matching!()).returns(v).n_times(3)"),
                     blk("A", 3, "some_call(matching!()).returns(v).at_least_times(1)"),
                     blk("Q", 3, "each_call(matching!()).returns(v).at_least_times(1)"),
                     blk("U", 2, "next_call(matching!()).returns(v).n_times(2)"),
                     blk("E", 1, "some_call(matching!()).returns(v).n_times(1)")]
        body.append("}")
        parts += body
        arms.append(f"        {k} => run{k}(toks, out),")
    parts += ["pub fn run(k: usize, toks: &[String], out: &mut Vec<String>) {", "    match k {"] + arms + \
             ["        _ => panic!(\"no such type\"),", "    }", "}", ""]
    src = "\n".join(parts)
    path = os.path.join(C.VERIF, "harness", HARNESS, "src", "gen.rs")
    if not os.path.exists(path) or open(path).read() != src:
        open(path, "w").write(src)


def rlib_paths():
    from ..rustc_sweep import find_rlib
    deps, rlib = find_rlib(os.path.join(C.CACHE, "target", HARNESS))
    if rlib is None:
        raise C.CheckFailure("no built unimock rlib (of the repository under test) to probe against", deps)
    return deps, rlib


def probe_programs(progs):
    """rustc --emit=metadata on each program text (parallel); returns [(ok, first error line)]"""
    deps, rlib = rlib_paths()
    d = tempfile.mkdtemp(prefix="vprobe")

    def run(i):
        f = os.path.join(d, f"p{i}.rs")
        open(f, "w").write(progs[i])
        rc, out, err = C.sh(["rustc", "--edition", "2021", "--crate-type", "lib", "--emit=metadata", "--cap-lints", "allow",
                             "-L", "dependency=" + deps, "--extern", "unimock=" + rlib, "--cfg", "unimock_verif",
                             "-o", os.path.join(d, f"p{i}.rmeta"), f], timeout=300)
        errs = [l for l in err.splitlines() if l.startswith("error")]
        return rc == 0, (errs[0] if errs else "")

    try:
        with ThreadPoolExecutor(max_workers=C.NCPU) as ex:
            return list(ex.map(run, range(len(progs))))
    finally:
        shutil.rmtree(d, ignore_errors=True)


def probe_src(rust, in_ty, chain="some_call(matching!()).returns(v)"):
    if has_param(rust):
        chain = chain.replace("matching!()", "matching!(_)")
    return (HDR + f"#[unimock(api = M)]\npub trait T{trait_generics(rust)} {{ {sig_of(rust)}; }}\n"
            f"pub fn p(v: {rust_in(rust, in_ty)}) {{ let _ = Unimock::new(M::f.{chain}); }}\n")


def norm_kind(s):
    s = re.sub(r"\b(?:[a-z_][a-z0-9_]*::)+", "", s)
    s = re.sub(r"\bW<'[a-z_]+>", "C", s)      # the lifetime-carrying leaf is the model's C
    return s.replace("'static ", "").replace(" ", "")


def build_accepted(infos):
    """build the batch crate; on failure find the types rustc refuses although the model accepts them"""
    acc = [i for i in infos if i["accept"]]
    mism = []
    for _ in range(3):
        write_gen_rs(acc)
        try:
            return C.build_harness(HARNESS), acc, mism
        except C.CheckFailure as f:
            progs = [probe_src(i["rust"], i["in"]) for i in acc] + \
                    [probe_src(i["rust"], i["in"], "each_call(matching!()).returns(v)") for i in acc if i["multi"]]
            res = probe_programs(progs)
            multi = [i for i in acc if i["multi"]]
            bad = {}
            for inf, (ok, e) in zip(acc, res[:len(acc)]):
                if not ok: bad[inf["rust"]] = {"type": inf["rust"], "model": "accepted", "rustc": "rejected: " + e,
                                               "program": probe_src(inf["rust"], inf["in"])}
            for inf, (ok, e) in zip(multi, res[len(acc):]):
                if not ok and inf["rust"] not in bad:
                    bad[inf["rust"]] = {"type": inf["rust"], "model": "multi-use path type-checks", "rustc": "rejected: " + e,
                                        "program": probe_src(inf["rust"], inf["in"], "each_call(matching!()).returns(v)")}
            if not bad:
                raise
            mism += list(bad.values())
            acc = [i for i in acc if i["rust"] not in bad]
    raise C.CheckFailure("the generated crate of accepted return types does not build", json.dumps(mism)[:3000])


def run_cases(binary, acc, cases):
    lines = [f"case {n} {c['k']} " + " ".join(tokens(c["v"])) for n, c in enumerate(cases)]
    impl = C.run_harness(binary, lines)
    model = C.coq_eval_cases(PRELUDE, [f"({coq_ty(acc[c['k']]['ty'])}, {coq_val(c['v'])})" for c in cases], shard=100)
    return impl, model


def strip_obs(lines):
    return [l for l in lines if l != ""]


# ---------------------------------------------------------------- the run
def run(tier, seed):
    t0 = time.time()
    rng = random.Random(seed)
    obligations = C.proof_obligations("C17", MODULE, THEOREMS)
    types = gen_types(rng, tier)
    infos = analyse_types(types)
    infos += named_variants(infos, 40 if tier == "quick" else 400) + param_variants(infos, 25 if tier == "quick" else 250) \
        + lt_variants(infos, 25 if tier == "quick" else 250) + typed_variants(infos, 20 if tier == "quick" else 200)
    binary, acc, mism = build_accepted(infos)
    # acceptance boundary: what the model rejects must not compile; no multi-use path => each_call().returns must not compile
    rej = [i for i in infos if not i["accept"]]
    nomulti = [i for i in acc if not i["multi"]]
    rng.shuffle(nomulti)
    nomulti = nomulti[:30 if tier == "quick" else 200]
    res = probe_programs([probe_src(i["rust"], natural_in(i["ty"])) for i in rej] +
                         [probe_src(i["rust"], i["in"], "each_call(matching!()).returns(v)") for i in nomulti])
    for inf, (ok, e) in zip(rej, res[:len(rej)]):
        inf["rustc_error"] = e
        if ok: mism.append({"type": inf["rust"], "model": "rejected (" + inf["kind"] + ")", "rustc": "accepted with input " + natural_in(inf["ty"])})
    for inf, (ok, e) in zip(nomulti, res[len(rej):]):
        if ok: mism.append({"type": inf["rust"], "model": "no multi-use path (an owned part is not Clone)", "rustc": "each_call().returns(v) accepted"})
    # the OutputKind the macro really wrote
    kinds = C.run_harness(binary, [f"case {k} {k} KIND" for k in range(len(acc))])
    kind_bad = [(inf, obs) for inf, obs in zip(acc, kinds)
                if not (obs and obs[0].startswith("K ") and norm_kind(obs[0][2:]) == norm_kind(inf["kind"]))]
    # values
    cases = []
    for k, inf in enumerate(acc):
        it = parse_in(inf["in"])
        for v in values_for(rng, it, tier):
            cases.append({"k": k, "v": v})
    impl, model = run_cases(binary, acc, cases)
    bad = [n for n in range(len(cases)) if strip_obs(impl[n]) != strip_obs(model[n])]

    dist = collections.Counter()
    for inf in infos:
        dist["types:" + ("accepted" if inf["accept"] else "rejected")] += 1
    for inf in acc:
        dist["accepted:depth=%d" % depth(inf["ty"])] += 1
        dist["accepted:kind=" + inf["kind"].split("<")[0]] += 1
        dist["accepted:multi_use=" + str(inf["multi"])] += 1
        containers(inf["ty"], dist)
    for inf in rej:
        dist["rejected:" + re.sub(r"`[^`]*`", "_", inf.get("rustc_error", ""))[:60]] += 1
    for c in cases:
        value_stats(c["v"], dist)
    dist["request_lines:delivered"] = sum(1 for o in impl for l in o if l and " P " not in l)
    dist["request_lines:refused(P)"] = sum(1 for o in impl for l in o if " P " in l)
    distinct = {(c["k"], json.dumps(c["v"])) for c in cases}
    nontriv = sum(1 for (k, _) in distinct if acc[k]["kind"].split("<")[0] in ("Shallow", "Deep"))
    n_obl = len(obligations) + 3
    cov = {
        "obligations": n_obl,
        "discharged": len(obligations) + (0 if mism else 1) + (0 if kind_bad else 1) + (0 if bad else 1),
        "checker_cmd": f"make -C /verif/coq (coqc 8.16.1, full .vo) ; ./check C17 --tier {tier}",
        "trusted_base": C.TRUSTED_BASE + ["rustc as the judge of which generated traits / returns() calls type-check",
                                         "harness/outputs/src/obs.rs (Build: tokens -> input value; Obs: structural printing, reference addresses)"],
        "theorems": obligations,
        "correspondence_obligations": [
            "acceptance: model `accepts`/`multi_ok` = rustc on every generated type (batch crate + one rustc per rejected type)",
            "kind: model `kind_str` = type_name of <MockFn>::OutputKind for every accepted type",
            "values: model request lines (vm_compute of requests over into_return_once / into_return) = harness lines for every case"],
        "types_generated": len(infos), "types_accepted": len(acc), "types_rejected_probed": len(rej),
        "no_multi_use_probed": len(nomulti), "acceptance_mismatches": mism[:20], "kind_mismatches": len(kind_bad),
        "evaluations": len(cases), "distinct_nontrivial": nontriv, "rule": RULE,
        "samples": [{"type": acc[c["k"]]["rust"], "kind": acc[c["k"]]["kind"], "returns_input": acc[c["k"]]["in"],
                     "value_tokens": " ".join(tokens(c["v"])), "observed": strip_obs(impl[n])[:5]}
                    for n, c in list(enumerate(cases))[len(cases) // 2: len(cases) // 2 + 3]],
        "distribution": dict(sorted(dist.items())),
    }
    # repeatable owned leaves are cloned per request from a stored original that must stay in place: also when requests overlap
    # (clones of the mock on 2-3 threads, every interleaving of the runtime's atomic operations, Layer B model)
    from ..layer_b import ConcurrentPart
    def repeat_programs(rng_, tier_):
        progs = []
        for ops in ([("ret", 7)], [("ret", 7), ("n", 3)], [("ret", 7), ("al", 1)], [("ret", 7), ("n", 1), ("then",), ("ret", 8)]):
            for nth in (2, 3):
                terms = [{"kind": "call", "mid": 0, "opener": "each", "pat": {"matcher": 255, "dbg": 1, "ops": ops}}]
                progs.append({"partial": False, "terms": terms, "threads": [[(0, k)] for k in range(nth)], "sched": [], "shared": nth == 2})
        return progs
    cn, cpayload, ccov = (0, None, {})
    if not (bad or kind_bad or mism):
        cn, cpayload, ccov = ConcurrentPart("C17", repeat_programs, "correspondence C17 (concurrent part): overlapping requests for a repeatable owned "
                                            "return value vs the Layer B model (every request is served with the configured value)")(rng, tier, seed, [])
        cov.update(ccov); cov["obligations"] += 1; cov["discharged"] += 0 if cpayload else 1; cov["evaluations"] += cn
    if cpayload is not None:
        path = C.write_replay("C17", seed, cpayload)
        C.write_evidence("C17", tier, seed, cov, time.time() - t0, 1)
        C.violation("C17", path)
        return 1
    if bad:
        n = min(bad, key=lambda j: (len(acc[cases[j]["k"]]["rust"]), len(tokens(cases[j]["v"]))))   # smallest disagreeing type first
        case = cases[n]
        inf = acc[case["k"]]
        # shrink the value (no rebuild needed: values are run-time input of the harness)
        for _ in range(12):
            cands = [{"k": case["k"], "v": v} for v in shrink_value(case["v"])][:60]
            if not cands:
                break
            ci, cm = run_cases(binary, acc, cands)
            nxt = next((c for j, c in enumerate(cands) if strip_obs(ci[j]) != strip_obs(cm[j])), None)
            if nxt is None:
                break
            case = nxt
        ci, cm = run_cases(binary, acc, [case])
        payload = {"property": "C17", "seed": seed,
                   "theorem_or_correspondence": "correspondence C17: observed return values vs model (proved: C17_multi_use / C17_single_use / C17_shape)",
                   "type": inf["ty"], "rust_return_type": inf["rust"], "output_kind": inf["kind"], "returns_input_type": inf["in"],
                   "multi": inf["multi"], "value": case["v"], "value_tokens": " ".join(tokens(case["v"])),
                   "coq_case": f"({coq_ty(inf['ty'])}, {coq_val(case['v'])})",
                   "expected_by_model": strip_obs(cm[0]), "observed_on_implementation": strip_obs(ci[0]),
                   "disagreeing_cases_in_run": len(bad),
                   "reading": "S<i>: i-th request after some_call().returns(v); O1: next_call().returns(v); M<i>: each_call().returns(v); "
                              "T<i>: some_call().returns(v).n_times(3); A<i>: some_call().returns(v).at_least_times(1); Q<i>: each_call().returns(v).at_least_times(1); "
                              "U<i>: next_call().returns(v).n_times(2); E1: some_call().returns(v).n_times(1); `P once` = panic 'cannot return value more than once'",
                   "replay_cmd": "./check C17 --replay <this file>"}
        path = C.write_replay("C17", seed, payload)
        C.write_evidence("C17", tier, seed, cov, time.time() - t0, 1)
        C.violation("C17", path)
        return 1
    if kind_bad:
        inf, obs = kind_bad[0]
        payload = {"property": "C17", "seed": seed,
                   "theorem_or_correspondence": "correspondence C17/kind: Macro/Output.v kind_of vs the OutputKind written by #[unimock]",
                   "rust_return_type": inf["rust"], "model_kind": inf["kind"], "observed_kind": obs, "mismatches": len(kind_bad)}
        path = C.write_replay("C17", seed, payload)
        C.write_evidence("C17", tier, seed, cov, time.time() - t0, 1)
        C.violation("C17", path, no_input=True)
        return 1
    should_compile = [m for m in mism if "program" in m]
    if should_compile:
        # a program of the property's grammar (a return type the model accepts, returns(v) with the input type the model derives)
        # that the real macro / crate no longer compiles: that program is the failing input
        m0 = min(should_compile, key=lambda m: len(m["type"]))
        payload = {"property": "C17", "seed": seed, "part": "acceptance",
                   "theorem_or_correspondence": "correspondence C17/acceptance: a return type the model accepts (C17_accepted_has_kind) with returns(v) of the derived input type must compile",
                   "rust_return_type": m0["type"], "model": m0["model"], "rustc": m0["rustc"], "program": m0["program"],
                   "mismatches_in_run": len(mism), "replay_cmd": "./check C17 --replay <this file>"}
        path = C.write_replay("C17", seed, payload)
        C.write_evidence("C17", tier, seed, cov, time.time() - t0, 1)
        C.violation("C17", path)
        return 1
    if mism:
        payload = {"property": "C17", "seed": seed,
                   "theorem_or_correspondence": "correspondence C17/acceptance: Macro/Output.v accepts / multi_ok vs rustc",
                   "mismatches": mism[:50],
                   "note": "acceptance is outside the property (a rejected type is a compile error, not a wrong value); all accepted values agreed"}
        path = C.write_replay("C17", seed, payload)
        C.write_evidence("C17", tier, seed, cov, time.time() - t0, 1)
        C.violation("C17", path, no_input=True)
        return 1
    C.write_evidence("C17", tier, seed, cov, time.time() - t0, 0,
                     assumptions=["model/implementation agreement is established on the generated types and values only",
                                  "std build (MutexIsh available); MutLending, async/future wrappings and named lifetimes are outside the modelled grammar"])
    print(f"C17: {len(obligations)} theorems closed; {len(infos)} types ({len(acc)} accepted, {len(rej)} rejected, all confirmed by rustc), "
          f"{len(acc)} output kinds and {len(cases)} co-executions agree ({time.time()-t0:.1f}s)")
    return 0


def replay(path):
    payload = json.load(open(path))
    if payload.get("part") == "sched":
        from ..layer_b import replay_sched
        return replay_sched("C17", payload, path)
    if payload.get("part") == "acceptance":
        (ok, e), = probe_programs([payload["program"]])
        print(payload["program"]); print("rustc:", "accepts" if ok else "rejects: " + e)
        if not ok:
            C.violation("C17", path); return 1
        print("compiles, as the model says"); return 0
    if "value" not in payload:
        print("replay file names an obligation, not an input:", payload.get("theorem_or_correspondence"))
        print(json.dumps({k: v for k, v in payload.items() if k not in ("property", "seed")}, indent=1)[:2000])
        return 1
    def tup(x):
        return tuple(tup(y) if isinstance(y, list) and y and isinstance(y[0], str) else
                     ([tup(z) if isinstance(z, list) else z for z in y] if isinstance(y, list) else y) for y in x)
    ty, v = tup(payload["type"]), tup(payload["value"])
    inf = {"ty": ty, "rust": payload["rust_return_type"], "accept": True, "multi": payload["multi"],
           "kind": payload["output_kind"], "in": payload["returns_input_type"]}
    write_gen_rs([inf])
    binary = C.build_harness("outputs")
    ci, cm = run_cases(binary, [inf], [{"k": 0, "v": v}])
    print("type   :", inf["rust"], " kind:", inf["kind"])
    print("value  :", " ".join(tokens(v)))
    print("model  :", strip_obs(cm[0]))
    print("impl   :", strip_obs(ci[0]))
    if strip_obs(ci[0]) != strip_obs(cm[0]):
        C.violation("C17", path)
        return 1
    print("agree on the property's projection")
    return 0

"""C01 -- unordered calls are answered by the first declared pattern that matches."""
import collections
from .. import cases as K
from ..layer_a import Engine
from ..runner import run_coexec, replay_coexec

MODULE = "Props.C01"
THEOREMS = ["C01_first_match", "C01_no_match", "C01_frame_other_methods", "C01_frame_state", "C01_history",
            "C01_patterns_in_declaration_order", "C01_first_match_is_first", "C01_nonvacuous"]


def method_patterns(case, mid):
    ps = []
    for t in case["terms"]:
        if t["mid"] != mid:
            continue
        ps += [t["pat"]] if t["kind"] == "call" else t["pats"]
    return ps


def nontrivial(case):
    """some call whose argument is accepted by >= 2 patterns of the called method"""
    for e in case["events"]:
        if e["base"][0] != "call":
            continue
        _, _, mid, arg = e["base"]
        n = sum(1 for p in method_patterns(case, mid) if p["matcher"] is not None and (p["matcher"] >> arg) & 1)
        if n >= 2:
            return True
    return False


RULE = ("random clause lists over 1-4 unordered methods (some_call/each_call/stub, 8-bit masks = every predicate "
        "over the 8-value argument domain, response chains from the C02 grammar), strict and partial, histories "
        "of 4-24 calls biased to repeat one argument; distinct = different canonical JSON; non-trivial = some call "
        "whose argument is accepted by at least two patterns of the called method")


def gen_cases(rng, tier):
    n = 600 if tier == "quick" else 6000
    out = []
    for i in range(n):
        mids = rng.sample([0, 1, 2, 3, 4, 5], rng.randint(1, 4))
        g = K.Gen(rng, mids=mids, n_terms=(1, 6), n_events=(4, 24), ordered_frac=0.0,
                  final=rng.choice(["drop", "verify", "report"]), partial_frac=0.35)
        out.append(g.case())
    return out


def stats(cases):
    d = collections.Counter()
    for c in cases:
        d["partial" if c["partial"] else "strict"] += 1
        d[f"terms={len(c['terms'])}"] += 1
        d["calls"] += sum(1 for e in c["events"] if e["base"][0] == "call")
    return dict(d)


def engines(tier):
    es = [Engine("C01")]
    if tier == "thorough":
        es.append(Engine("C01", bc="cfg_spin", features=["spin-build"]))
    return es


def run(tier, seed):
    return run_coexec("C01", tier, seed, module=MODULE, theorems=THEOREMS, gen_cases=gen_cases,
                      nontrivial=nontrivial, rule=RULE, engines=engines(tier), stats=stats)


def replay(path):
    return replay_coexec("C01", path, lambda p: Engine("C01", bc=p.get("build", "cfg_std"), features=p.get("features")))

"""C01 -- unordered calls are answered by the first declared pattern that matches."""
import collections
from .. import cases as K
from ..layer_a import Engine, proj_default
from ..tuple_part import TuplePart
from ..trace_part import TracePart
from ..runner import run_coexec, replay_coexec

MODULE = "Props.C01"
THEOREMS = ["C01_first_match", "C01_no_match", "C01_frame_other_methods", "C01_frame_state", "C01_history",
            "C01_patterns_in_declaration_order", "C01_first_match_is_first", "C01_later_patterns_are_not_consulted", "C01_nonvacuous"]


def method_patterns(case, mid):
    ps = []
    for t in case["terms"]:
        if t["mid"] != mid:
            continue
        ps += [t["pat"]] if t["kind"] == "call" else t["pats"]
    return ps


def nontrivial(case):
    """some call whose argument is accepted by >= 2 patterns of the called method"""
    for e in case["events"]:
        if e["base"][0] != "call":
            continue
        _, _, mid, arg = e["base"]
        n = sum(1 for p in method_patterns(case, mid) if p["matcher"] is not None and (p["matcher"] >> arg) & 1)
        if n >= 2:
            return True
    return False


RULE = ("random clause lists over 1-4 unordered methods (some_call/each_call/stub, 8-bit masks = every predicate "
        "over the 8-value argument domain, response chains from the C02 grammar), strict and partial, histories "
        "of 4-24 calls biased to repeat one argument; distinct = different canonical JSON; non-trivial = some call "
        "whose argument is accepted by at least two patterns of the called method; plus, complete: one method with two patterns "
        "carrying EVERY pair of predicates over a 3-value argument domain x every history of length 3")


def exhaustive_cases(tier):
    """small scope, complete: one method, two patterns with EVERY pair of predicates over a 3-value argument domain,
    every history of length 3 (thorough: also length 4, three patterns sampled, partial mocks)"""
    import itertools
    out = []
    lengths = [3] if tier == "quick" else [3, 4]
    for m1 in range(8):
        for m2 in range(8):
            terms = [{"kind": "call", "mid": 0, "opener": "each", "pat": {"matcher": m1, "dbg": 1, "ops": [("ret", 1), ("n", 1), ("then",), ("ret", 2)]}},
                     {"kind": "call", "mid": 0, "opener": "each", "pat": {"matcher": m2, "dbg": 2, "ops": [("ret", 3)]}}]
            for L in lengths:
                for h in itertools.product(range(3), repeat=L):
                    evs = [{"base": ("call", 0, 0, a)} for a in h] + [{"base": ("verify", 0)}]
                    out.append({"partial": tier != "quick" and (m1 + m2 + sum(h)) % 2 == 1, "terms": terms, "events": evs, "_exh": True})
    return out


def gen_cases(rng, tier):
    n = 600 if tier == "quick" else 6000
    out = exhaustive_cases(tier)
    # large configurations: many patterns per method, clauses of several methods interleaved
    for i in range(n // 12):
        mids = rng.sample([0, 1, 2, 3], rng.randint(2, 3))
        g = K.Gen(rng, mids=mids, n_terms=(12, 30), n_events=(8, 24), ordered_frac=0.0, stub_frac=0.4, max_segments=1,
                  final=rng.choice(["drop", "verify"]), partial_frac=0.3, full_mask_frac=0.05, nomatcher_frac=0.0)
        out.append(g.case())
    for i in range(n):
        mids = rng.sample([0, 1, 2, 3, 4, 5], rng.randint(1, 4))
        g = K.Gen(rng, mids=mids, n_terms=(1, 6), n_events=(4, 24), ordered_frac=0.0,
                  final=rng.choice(["drop", "verify", "report"]), partial_frac=0.35)
        out.append(g.case())
    return out


def stats(cases):
    d = collections.Counter()
    for c in cases:
        d["partial" if c["partial"] else "strict"] += 1
        d[f"terms={len(c['terms'])}"] += 1
        d["calls"] += sum(1 for e in c["events"] if e["base"][0] == "call")
    return dict(d)


def engines(tier):
    es = [Engine("C01")]
    if tier == "thorough":
        es.append(Engine("C01", bc="cfg_spin", features=["spin-build"]))
    return es


def overlapping_programs(rng, tier):
    """2-3 threads (clones) calling one unordered method with two or three OVERLAPPING patterns, each quantified exactly with the number
    of calls it is going to answer: the first declared accepting pattern answers and is counted also when the calls overlap in time"""
    progs = []
    for (nth, ncalls) in [(2, 1), (2, 2), (3, 1)] + ([(3, 2), (2, 3)] if tier == "thorough" else []):
        for _ in range(3 if tier == "quick" else 8):
            a = rng.randrange(8)
            b = rng.choice([x for x in range(8) if x != a])
            threads = [[(0, rng.choice([a, a, b])) for _ in range(ncalls)] for _ in range(nth)]
            na = sum(1 for t in threads for (_, x) in t if x == a)
            nb = sum(1 for t in threads for (_, x) in t if x == b)
            terms = []
            if na:
                terms.append({"kind": "call", "mid": 0, "opener": "each", "pat": {"matcher": 1 << a, "dbg": 1, "ops": [("ret", 1), ("n", na)]}})
            if nb:
                terms.append({"kind": "call", "mid": 0, "opener": "each", "pat": {"matcher": (1 << a) | (1 << b), "dbg": 2, "ops": [("ret", 2), ("n", nb)]}})
            terms.append({"kind": "call", "mid": 0, "opener": "each", "pat": {"matcher": 255, "dbg": 3, "ops": [("ret", 3), ("al", 0)]}})
            progs.append({"partial": False, "terms": terms, "threads": threads, "sched": [], "shared": rng.random() < 0.3})
    return progs


def run(tier, seed):
    from ..layer_b import ConcurrentPart
    return run_coexec("C01", tier, seed, module=MODULE, theorems=THEOREMS, gen_cases=gen_cases,
                      nontrivial=nontrivial, rule=RULE, engines=engines(tier), stats=stats,
                      parts=[TuplePart("C01", proj_default), TracePart("C01", n_quick=120, n_thorough=1200),
                             ConcurrentPart("C01", overlapping_programs, "correspondence C01 (concurrent part): overlapping calls to overlapping patterns - which "
                                            "pattern answers, and the counts the verdict is computed from, vs the Layer B model under every interleaving")])


def replay(path):
    return replay_coexec("C01", path, lambda p: Engine("C01", bc=p.get("build", "cfg_std"), features=p.get("features")))

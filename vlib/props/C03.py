"""C03 -- verification fails exactly when an expectation is unmet, and names each one."""
import collections
from .. import cases as K
from ..layer_a import Engine
from ..runner import run_coexec, replay_coexec
from ..tuple_part import TuplePart
from ..deleg_part import DelegPart
from ..layer_b import ConcurrentPart
from .C02 import chain_counts

MODULE = "Props.C03"
THEOREMS = ["C03_expectation_of_chain", "C03_line_iff_violated", "C03_silent_iff", "C03_lines",
            "C03_line_names_pattern", "C03_never_called_names_method", "C03_teardown_is_verdict",
            "C03_nonvacuous"]

SAFE_RESP = dict(ret=50, retd=8, ans=20, ansarc=10, unm=6, dfl=6)


def lower_bound(pat, ordered, start_dr):
    """(bound, exact?) of a pattern, by the documented rules (python mirror used only to steer counts)"""
    ops = pat["ops"]
    counts = chain_counts(ops)
    total = sum(c or 0 for c in counts)
    if not ops:
        return 0, False
    last = ops[-1][0]
    if last in ("once", "n"):
        return total, True
    if last == "al":
        return total, False
    if last == "then":
        return total + 1, False
    # unquantified last segment
    if len(counts) == 1:
        if ops[0][0] == "ret" and start_dr:
            return 1, True
        return (1, True) if ordered else (0, False)
    return (total + 1, True) if ordered else (total + 1, False)


def single_use_forever(pat, start_dr):
    ops = pat["ops"]
    return start_dr and ops and ops[0][0] == "ret" and (len(ops) == 1 or (len(ops) == 2 and ops[1][0] == "once"))


def nontrivial(case):
    """at least two patterns, and some pattern's count is at its bound or one off"""
    return len(case["terms"]) >= 2 and case.get("_steered", 0) >= 1


RULE = ("error-free histories only: 1-3 methods with 1-4 patterns of pairwise disjoint matchers (so every call has one "
        "known target), chains from the C02 grammar without panicking responses, ordered clause sequences consumed in "
        "order and cut at a random slot; every pattern is driven to bound-1, bound or bound+1 (random per pattern, i.e. "
        "random subsets of simultaneously violated expectations), duplicate pattern names and the same-named methods "
        "G<u8>::g / G<u16>::g included; verified by drop, verify() or report(); distinct = canonical JSON; non-trivial = "
        ">= 2 clauses and >= 1 pattern driven to within one of its bound")


def gen_case(rng):
    ordered_case = rng.random() < 0.3
    mids = rng.sample([0, 1, 2, 3, 6, 7], rng.randint(1, 3))
    g = K.Gen(rng, mids=mids, max_count=3, max_segments=3, nomatcher_frac=0.0, resp_weights=SAFE_RESP,
              dbg_frac=0.6, dup_dbg_frac=0.35)
    terms, plan, dbgs = [], [], []   # plan: (mid, arg, times)
    steered = 0
    if ordered_case:
        seq = []
        for _ in range(rng.randint(1, 5)):
            mid = rng.choice(mids)
            w = dict(SAFE_RESP)
            if mid not in K.HAS_UNMOCK: w.pop("unm")
            if mid not in K.HAS_DEFAULT: w.pop("dfl")
            g.k["resp_weights"] = w
            p = g.pat("DR", True, True, False, dbgs)
            p["matcher"] = 255
            terms.append({"kind": "call", "mid": mid, "opener": "next", "pat": p})
            lb, _ = lower_bound(p, True, True)
            seq += [mid] * lb
        cut = rng.choice([len(seq), len(seq), rng.randint(0, len(seq))])
        steered = 1
        calls = [(m, rng.randrange(K.NARGS)) for m in seq[:cut]]
        # an unordered method on the side
        side = [m for m in [0, 1, 2, 3] if m not in mids]
        if side and rng.random() < 0.5:
            mid = rng.choice(side)
            p = g.pat("DMR", False, True, False, dbgs)
            p["matcher"] = 255
            terms.insert(rng.randint(0, len(terms)), {"kind": "call", "mid": mid, "opener": "each", "pat": p})
            extra = [(mid, 0)] * rng.randint(0, 3)
            for c in extra:
                calls.insert(rng.randint(0, len(calls)), c)
    else:
        calls = []
        for mid in mids:
            w = dict(SAFE_RESP)
            if mid not in K.HAS_UNMOCK: w.pop("unm")
            if mid not in K.HAS_DEFAULT: w.pop("dfl")
            g.k["resp_weights"] = w
            npat = rng.randint(1, 4)
            pats = []
            stub = rng.random() < 0.4
            for j in range(npat):
                if stub:
                    p = g.pat("DMR", False, True, True, dbgs)
                    start_dr = False
                else:
                    opener = rng.choice(["some", "each"])
                    start_dr = opener == "some"
                    p = g.pat("DR" if start_dr else "DMR", False, True, False, dbgs)
                    p["_opener"] = opener
                p["matcher"] = (1 << j) | (rng.randrange(16) << 4 if rng.random() < 0.3 else 0)
                if not p["ops"]:
                    p["ops"] = [("ans", g.fresh())]
                lb, exact = lower_bound(p, False, start_dr)
                target = max(0, lb + rng.choice([-1, 0, 0, 1]))
                if single_use_forever(p, start_dr):
                    target = min(target, 1)
                if abs(target - lb) <= 1:
                    steered += 1
                calls += [(mid, j)] * target
                pats.append(p)
            if stub:
                terms.append({"kind": "stub", "mid": mid, "pats": pats})
            else:
                for p in pats:
                    terms.append({"kind": "call", "mid": mid, "opener": p.pop("_opener"), "pat": p})
        rng.shuffle(calls)
        if rng.random() < 0.5:
            rng.shuffle(terms)  # per-method order is irrelevant here: matchers are disjoint
    evs = [{"base": ("clone", 0)}]
    for (mid, arg) in calls:
        evs.append({"base": ("call", rng.randrange(2), mid, arg)})
    # a value lent by the instance may itself own a clone of the mock (make_ref(u.clone())): it is released
    # with the instance, before the verdict is computed
    if rng.random() < 0.25:
        evs.insert(rng.randint(1, len(evs)), {"base": ("lend", rng.randrange(2))})
    # the original may have been switched to no_verify_in_drop() at any point: its drop is then silent, verify() and report() still judge
    if rng.random() < 0.12:
        evs.insert(rng.randint(0, len(evs)), {"base": ("nvid", 0)})
    evs += [{"base": ("drop", 1)}, {"base": (rng.choice(["drop", "verify", "report"]), 0)}]
    return {"partial": rng.random() < 0.3, "terms": terms, "events": evs, "_steered": steered}


def twin_case(rng):
    """expectations whose failure lines are textually identical: a duplicated pattern
    (same name, same chain, same count) or the same-named methods G<u8>::g / G<u16>::g"""
    import copy
    g = K.Gen(rng, mids=[0], max_count=3, max_segments=2, nomatcher_frac=0.0, resp_weights=SAFE_RESP)
    if rng.random() < 0.5:
        mid = rng.choice([0, 1, 2, 3])
        p = g.pat("DMR", False, True, False, [])
        p["dbg"] = rng.choice([None, 7]) if False else 7
        p["matcher"] = 1
        q = copy.deepcopy(p)
        q["matcher"] = 2
        lb, _ = lower_bound(p, False, False)
        target = max(0, lb + rng.choice([-1, 1]))
        terms = [{"kind": "call", "mid": mid, "opener": "each", "pat": p},
                 {"kind": "call", "mid": mid, "opener": "each", "pat": q}]
        calls = [(mid, 0)] * target + [(mid, 1)] * target
        rng.shuffle(calls)
    else:
        terms, calls = [], []
        for mid in (6, 7):
            p = g.pat("DMR", False, True, False, [])
            p["dbg"] = 3
            p["matcher"] = 255
            p["ops"] = [("ret", g.fresh())] + rng.choice([[], [("al", 0)], [("n", 2)]])
            terms.append({"kind": "call", "mid": mid, "opener": "each", "pat": p})
        terms[1]["pat"]["ops"] = [o if o[0] != "ret" else ("ret", g.fresh()) for o in terms[0]["pat"]["ops"]]
    evs = [{"base": ("call", 0, m, a)} for (m, a) in calls]
    evs.append({"base": (rng.choice(["drop", "verify", "report"]), 0)})
    return {"partial": False, "terms": terms, "events": evs, "_steered": 1}


def gen_cases(rng, tier):
    n = 600 if tier == "quick" else 6000
    return [twin_case(rng) for _ in range(n // 12)] + [gen_case(rng) for _ in range(n)]


def stats(cases):
    d = collections.Counter()
    for c in cases:
        d[f"terms={len(c['terms'])}"] += 1
        d["final=" + c["events"][-1]["base"][0]] += 1
    return dict(d)


def project(case, obs):
    from ..layer_a import proj_default
    return proj_default(case, obs)


def engines(tier):
    es = [Engine("C03", project=project)]
    if tier == "thorough":
        es.append(Engine("C03", bc="cfg_spin", features=["spin-build"], project=project))
    return es


def counting_programs(rng, tier):
    """2-3 threads (clones) matching patterns with tight count expectations (exactly n, at least n met exactly, then-chains) the same number
    of times as sequential callers would: the counts the verdict is computed from must not depend on the interleaving"""
    progs = []
    for (nth, ncalls) in [(2, 1), (2, 2), (3, 1)] + ([(3, 2)] if tier == "thorough" else []):
        for ops in ([("ret", 1), ("n", nth * ncalls)], [("ret", 1), ("al", nth * ncalls)], [("ret", 1), ("n", 1), ("then",), ("ret", 2), ("n", nth * ncalls - 1)],
                    [("ret", 1), ("n", nth * ncalls + 1)]):
            if ops[-1][1] == 0:
                continue
            terms = [{"kind": "call", "mid": 0, "opener": "each", "pat": {"matcher": 255, "dbg": 1, "ops": ops}}]
            progs.append({"partial": False, "terms": terms, "threads": [[(0, k)] * ncalls for k in range(nth)], "sched": []})
    return progs


def receiver_case(rng):
    """C15's generator (provided methods of every receiver kind; by-value / sole-owner Rc / Arc calls consume the original, which is
    verified at that moment) with count expectations that are frequently unmet when the original goes"""
    from . import C15
    c = C15.gen_case(rng)
    for t in c["terms"]:
        if t["mid"] in (10, 11) and rng.random() < 0.5:
            ops = t["pat"]["ops"]
            if ops and ops[0][0] == "ret" and len(ops) == 1:
                t["pat"]["ops"] = ops + [("n", rng.randint(2, 4))]
    return c


def run(tier, seed):
    return run_coexec("C03", tier, seed, module=MODULE, theorems=THEOREMS, gen_cases=gen_cases,
                      nontrivial=nontrivial, rule=RULE, engines=engines(tier), stats=stats,
                      parts=[TuplePart("C03", project, n_quick=30),
                             DelegPart("C03", receiver_case, "correspondence C03 (receiver part): the verdict when the original is consumed by a provided "
                                       "method with a by-value / Rc / Arc receiver (it travels through the delegation helper and back) vs the model",
                                       n_quick=40, n_thorough=300, rule=receiver_case.__doc__),
                             ConcurrentPart("C03", counting_programs, "correspondence C03 (concurrent part): match counts and verdict when clones call "
                                            "concurrently, every interleaving, vs the Layer B model (C10_joined_equals_sequential)")])


def replay(path):
    return replay_coexec("C03", path, lambda p: Engine("C03", bc=p.get("build", "cfg_std"), features=p.get("features"), project=project))

"""Cases for the Layer A co-execution: representation, rendering for the Rust
harness and for Coq, and generators."""
import random, copy

CLONE_OK = {0: True, 1: True, 2: True, 3: True, 4: False, 5: False, 6: True, 7: True, 9: False, 38: True, 39: True, 40: True}   # 9: P::mt -> (Uniq, &str, Uniq): two single-use slots
HAS_DEFAULT = {2, 3}
HAS_UNMOCK = {0, 2, 4}
ALL_MIDS = list(range(8))
NARGS = 8  # argument domain 0..7, matchers are 8-bit masks


# ------------------------------------------------------------ rendering

def op_tok(op):
    k = op[0]
    return k if len(op) == 1 else f"{k}:{op[1]}"


def pat_tok(p):
    m = "-" if p["matcher"] is None else str(p["matcher"])
    d = "-" if p["dbg"] is None else str(p["dbg"])
    return " ".join([m, d, str(len(p["ops"]))] + [op_tok(o) for o in p["ops"]])


def term_tok(t):
    if t["kind"] == "call":
        return f"c {t['mid']} {t['opener']} {pat_tok(t['pat'])}"
    return " ".join([f"s {t['mid']} {len(t['pats'])}"] + [pat_tok(p) for p in t["pats"]])


def event_tok(e):
    flags = ("o" if e.get("other") else "") + ("u" if e.get("unwinding") else "") or "."
    return flags + ":" + ":".join(str(x) for x in e["base"])


def harness_line(case, cid):
    # new_unwinding: the mock is constructed by cleanup code running while the thread unwinds (the model's construction
    # does not depend on that, so the Coq case is the same)
    return " ".join([f"case {cid}", ("partial" if case["partial"] else "strict") + ("U" if case.get("new_unwinding") else ""),
                     f"T {len(case['terms'])}"] + [term_tok(t) for t in case["terms"]]
                    + [f"E {len(case['events'])}"] + [event_tok(e) for e in case["events"]])


_OPC = {"ret": "OReturns", "retd": "OReturnsDefault", "ans": "OAnswers", "ansarc": "OAnswersArc",
        "pan": "OPanics", "unm": "OUnmocked", "dfl": "ODefaultImpl", "once": "OOnce",
        "n": "ONTimes", "al": "OAtLeastTimes", "then": "OThen"}
_OPENER = {"some": "SomeCall", "each": "EachCall", "next": "NextCall"}


def coq_opt(x):
    return "None" if x is None else f"(Some {x})"


def coq_op(op):
    return _OPC[op[0]] if len(op) == 1 else f"{_OPC[op[0]]} {op[1]}"


def coq_pat(p):
    return f"(Pt {coq_opt(p['matcher'])} {coq_opt(p['dbg'])} [{'; '.join(coq_op(o) for o in p['ops'])}])"


def coq_term(t):
    if t["kind"] == "call":
        return f"TCall {t['mid']} {_OPENER[t['opener']]} {coq_pat(t['pat'])}"
    return f"TStub {t['mid']} [{'; '.join(coq_pat(p) for p in t['pats'])}]"


def coq_event(e):
    b = e["base"]
    if b[0] == "twin":
        raise ValueError("twin events are split into separate model runs")
    args = " ".join(str(x) for x in b[1:])
    if b[0] == "live":
        return f"Ev false false live_"
    o = "true" if e.get("other") else "false"
    u = "true" if e.get("unwinding") else "false"
    return f"Ev {o} {u} ({b[0]}_ {args})"


def coq_case(case, bc="cfg_std"):
    return (f"Kase {bc} {'true' if case['partial'] else 'false'} "
            f"[{'; '.join(coq_term(t) for t in case['terms'])}] "
            f"[{'; '.join(coq_event(e) for e in case['events'])}]")


COQ_PRELUDE = "From Unimock Require Import Model.Run.\nOpen Scope N_scope.\n"


# ------------------------------------------------------------ generation

class Gen:
    """Random well-typed cases.  Every random choice comes from self.rng."""

    def __init__(self, rng, **kw):
        self.rng = rng
        self.k = dict(
            mids=[0, 1, 2, 3],          # methods that may be mentioned
            call_mids=None,             # methods that may be called (default: mids + one extra)
            n_terms=(1, 5),
            ordered_frac=0.0,           # fraction of methods that are ordered
            stub_frac=0.3,
            n_events=(4, 16),
            partial_frac=0.3,
            clone_frac=0.06,            # probability of a clone event per step (calls then go through any live instance)
            other_frac=0.06,            # probability that a call is made on another thread
            new_unwinding_frac=0.04,    # the mock is constructed by cleanup code while its thread unwinds
            unw_call_frac=0.05,         # a call is made by cleanup code while its thread unwinds (a panic of the call is swallowed there)
            max_count=3,
            max_segments=3,
            nomatcher_frac=0.02,
            dbg_frac=0.6,
            dup_dbg_frac=0.1,
            resp_weights=dict(ret=45, retd=5, ans=14, ansarc=8, pan=8, unm=10, dfl=10),
            final="drop",               # drop | verify | report | mixed | none
            full_mask_frac=0.15,
            nvid_frac=0.07,             # the original is switched to no_verify_in_drop() at a random point of the history
        )
        self.k.update(kw)
        self.tag = 0

    def fresh(self):
        self.tag += 1
        return self.tag

    def mask(self):
        r = self.rng.random()
        if r < self.k["full_mask_frac"]:
            return 255
        if r < self.k["full_mask_frac"] + 0.05:
            return 0
        return self.rng.randrange(256)

    def response(self, clone_ok, allow_ret=True):
        w = dict(self.k["resp_weights"])
        if not clone_ok:
            w.pop("retd", None)
        if not allow_ret:
            w.pop("ret", None)
        kinds = list(w)
        kind = self.rng.choices(kinds, [w[x] for x in kinds])[0]
        if kind in ("ret", "ans", "ansarc", "pan"):
            return (kind, self.fresh())
        return (kind,)

    def count(self):
        return self.rng.randint(0, self.k["max_count"])

    def chain(self, start, ordered, clone_ok, stub):
        """ops of one pattern, following the type states of build.rs"""
        ops = []
        state = start
        segs = 0
        rng = self.rng
        if stub and rng.random() < 0.04:
            return ops  # pattern without any response
        while True:
            segs += 1
            if state == "DR":
                r = self.response(clone_ok)
                ops.append(r)
                state = "QRV" if r[0] == "ret" else "Q"
            else:  # DMR
                r = self.response(clone_ok, allow_ret=clone_ok)
                ops.append(r)
                state = "Q"
            # quantifier
            last = segs >= self.k["max_segments"] or rng.random() < 0.45
            if state == "QRV":
                choices = ["once"]
                if clone_ok:
                    choices += ["n", "n"]
                    if not ordered:
                        choices.append("al")
                if last:
                    choices.append("end")
            else:
                choices = ["once", "n", "n"]
                if not ordered:
                    choices.append("al")
                if last:
                    choices.append("end")
            q = rng.choice(choices)
            if q == "end":
                return ops
            if q == "once":
                ops.append(("once",))
                exact = True
            elif q == "n":
                ops.append(("n", self.count()))
                exact = True
            else:
                ops.append(("al", self.count()))
                exact = False
            if not exact or last:
                if exact and stub and rng.random() < 0.15:
                    ops.append(("then",))  # dangling then (stub only)
                return ops
            ops.append(("then",))
            state = "DMR"

    def pat(self, start, ordered, clone_ok, stub, dbgs):
        rng = self.rng
        matcher = None if rng.random() < self.k["nomatcher_frac"] else self.mask()
        dbg = None
        if rng.random() < self.k["dbg_frac"]:
            if dbgs and rng.random() < self.k["dup_dbg_frac"]:
                dbg = rng.choice(dbgs)
            else:
                dbg = len(dbgs) + 1
                dbgs.append(dbg)
        return {"matcher": matcher, "dbg": dbg, "ops": self.chain(start, ordered, clone_ok, stub)}

    def terms(self):
        rng = self.rng
        mids = self.k["mids"]
        modes = {m: ("ord" if rng.random() < self.k["ordered_frac"] else "any") for m in mids}
        n = rng.randint(*self.k["n_terms"])
        dbgs = []
        out = []
        for _ in range(n):
            mid = rng.choice(mids)
            clone_ok = CLONE_OK[mid]
            if modes[mid] == "ord":
                out.append({"kind": "call", "mid": mid, "opener": "next",
                            "pat": self.pat("DR", True, clone_ok, False, dbgs)})
            elif rng.random() < self.k["stub_frac"]:
                pats = [self.pat("DMR", False, clone_ok, True, dbgs) for _ in range(rng.randint(1, 3))]
                out.append({"kind": "stub", "mid": mid, "pats": pats})
            else:
                opener = rng.choice(["some", "each"])
                out.append({"kind": "call", "mid": mid, "opener": opener,
                            "pat": self.pat("DR" if opener == "some" else "DMR", False, clone_ok, False, dbgs)})
        return out

    def events(self, terms):
        rng = self.rng
        mentioned = sorted({t["mid"] for t in terms})
        call_mids = self.k["call_mids"] or sorted(set(self.k["mids"]) | {1, 3})
        n = rng.randint(*self.k["n_events"])
        live = [0]
        ninst = 1
        evs = []
        fav_arg = rng.randrange(NARGS)
        for _ in range(n):
            if rng.random() < self.k["clone_frac"] and ninst < 4:
                src = rng.choice(live)
                evs.append({"base": ("clone", src)})
                live.append(ninst)
                ninst += 1
                continue
            mid = rng.choice(mentioned) if mentioned and rng.random() < 0.85 else rng.choice(call_mids)
            arg = fav_arg if rng.random() < 0.5 else rng.randrange(NARGS)
            e = {"base": ("call", rng.choice(live), mid, arg)}
            if rng.random() < self.k["other_frac"]:
                e["other"] = True
            if rng.random() < self.k["unw_call_frac"]:
                e["unwinding"] = True
            evs.append(e)
        if rng.random() < self.k["nvid_frac"]:
            evs.insert(rng.randint(0, len(evs)), {"base": ("nvid", 0)})
        # dispose: clones first, then the original
        for i in sorted(live, reverse=True):
            if i != 0:
                evs.append({"base": ("drop", i)})
        final = self.k["final"]
        if final == "mixed":
            final = rng.choice(["drop", "verify", "report"])
        if final != "none":
            evs.append({"base": (final, 0)})
        return evs

    def case(self):
        self.tag = 0
        terms = self.terms()
        c = {"partial": self.rng.random() < self.k["partial_frac"], "terms": terms,
             "events": self.events(terms)}
        if self.rng.random() < self.k["new_unwinding_frac"]:
            c["new_unwinding"] = True
        return c


# ------------------------------------------------------------ shrinking

def shrink_candidates(case):
    """Smaller variants of a case (one deletion each)."""
    out = []
    evs = case["events"]
    for i in range(len(evs)):
        if evs[i]["base"][0] in ("call", "count", "lend", "arm", "callown"):
            c = copy.deepcopy(case)
            del c["events"][i]
            out.append(c)
    for i, t in enumerate(case["terms"]):
        c = copy.deepcopy(case)
        del c["terms"][i]
        out.append(c)
        if t["kind"] == "stub" and len(t["pats"]) > 1:
            for j in range(len(t["pats"])):
                c = copy.deepcopy(case)
                del c["terms"][i]["pats"][j]
                out.append(c)
    return out

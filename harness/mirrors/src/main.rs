//! C20 harness.  `vmirrors wiring` prints the entry-point observations of the
//! generated program gen.rs (one call per method of every mirrored trait);
//! `vmirrors <case file>` runs differential script cases:
//!   case <id> strict|partial S <n> <mid>:<resp>.. O <n> <op>:<arg>..
//! resp: u | n<dec> | b<hex> | e<k> | p      arg: - | n<dec> | b<hex> | p<a>,<b>

mod drivers;
mod extras;
#[allow(unused, non_snake_case, clippy::all)]
mod gen;
mod script;

use std::io::{BufRead, Write};
use std::panic::{catch_unwind, AssertUnwindSafe};

use drivers::{Arg, Op};
use script::{Resp, Step};

fn hex(s: &str) -> Vec<u8> {
    (0..s.len() / 2).map(|i| u8::from_str_radix(&s[2 * i..2 * i + 2], 16).unwrap()).collect()
}

fn parse_step(t: &str) -> Step {
    let (m, r) = t.split_once(':').unwrap();
    let resp = match &r[..1] {
        "u" => Resp::Unit,
        "n" => Resp::Num(r[1..].parse().unwrap()),
        "b" => Resp::Bytes(hex(&r[1..])),
        "e" => Resp::Err(r[1..].parse().unwrap()),
        "p" => Resp::Pending,
        _ => panic!("bad resp {r}"),
    };
    Step { mid: m.parse().unwrap(), resp }
}

fn parse_op(t: &str) -> Op {
    let (m, a) = t.split_once(':').unwrap();
    let arg = match &a[..1] {
        "-" => Arg::None,
        "n" => Arg::Num(a[1..].parse().unwrap()),
        "b" => Arg::Bytes(hex(&a[1..])),
        "p" => {
            let (x, y) = a[1..].split_once(',').unwrap();
            Arg::Pair(x.parse().unwrap(), y.parse().unwrap())
        }
        _ => panic!("bad arg {a}"),
    };
    Op { id: m.parse().unwrap(), arg }
}

pub fn panic_text(p: Box<dyn std::any::Any + Send>) -> String {
    if let Some(s) = p.downcast_ref::<String>() {
        s.clone()
    } else if let Some(s) = p.downcast_ref::<&str>() {
        s.to_string()
    } else {
        "?".into()
    }
}

fn run_case(partial: bool, script: &[Step], ops: &[Op], out: &mut impl Write) {
    // ---- the plain scripted struct
    {
        let core = script::new_core(script);
        let mut p = script::Plain(core.clone());
        let mut panicked = false;
        for op in ops {
            let c2 = core.clone();
            match catch_unwind(AssertUnwindSafe(|| drivers::run_op(&mut p, op, &move || script::last_err(&c2)))) {
                Ok(r) => writeln!(out, "P r {r}").unwrap(),
                Err(_) => {
                    writeln!(out, "P r panic").unwrap();
                    panicked = true;
                    break;
                }
            }
        }
        writeln!(out, "P {}", script::log_line(&core)).unwrap();
        if !panicked {
            writeln!(out, "P left={}", script::leftover(&core)).unwrap();
        }
    }
    // ---- the mock
    {
        let core = script::new_core(script);
        let built = catch_unwind(AssertUnwindSafe(|| script::build_mock(&core, partial)));
        let mut u = match built {
            Ok(u) => u,
            Err(p) => {
                writeln!(out, "M construct panic: {}", panic_text(p).replace('\n', " ")).unwrap();
                return;
            }
        };
        let mut panicked = false;
        for op in ops {
            let c2 = core.clone();
            match catch_unwind(AssertUnwindSafe(|| drivers::run_op(&mut u, op, &move || script::last_err(&c2)))) {
                Ok(r) => writeln!(out, "M r {r}").unwrap(),
                Err(_) => {
                    writeln!(out, "M r panic").unwrap();
                    panicked = true;
                    break;
                }
            }
        }
        writeln!(out, "M {}", script::log_line(&core)).unwrap();
        // the mock is finished like a test would finish it: dropped, or (every other case) returned from the
        // test function, i.e. Termination::report -- which must give the same verdict
        static CASE_NO: std::sync::atomic::AtomicUsize = std::sync::atomic::AtomicUsize::new(0);
        let use_report = CASE_NO.fetch_add(1, std::sync::atomic::Ordering::SeqCst) % 2 == 1;
        let verdict: Result<bool, _> = catch_unwind(AssertUnwindSafe(move || {
            if use_report {
                use std::process::{ExitCode, Termination};
                format!("{:?}", u.report()) == format!("{:?}", ExitCode::SUCCESS)
            } else {
                drop(u);
                true
            }
        }));
        if !panicked {
            writeln!(out, "M verify={}", if matches!(verdict, Ok(true)) { "ok" } else { "fail" }).unwrap();
        }
    }
}

fn main() {
    std::panic::set_hook(Box::new(|_| {}));
    let args: Vec<String> = std::env::args().collect();
    let stdout = std::io::stdout();
    let mut out = std::io::BufWriter::new(stdout.lock());
    if args[1] == "wiring" {
        for (id, obs) in gen::wiring() {
            writeln!(out, "W {id} {}", obs.replace('\n', " ")).unwrap();
        }
        return;
    }
    let input = std::io::BufReader::new(std::fs::File::open(&args[1]).expect("open case file"));
    for line in input.lines() {
        let line = line.expect("read");
        let mut t = line.split_whitespace();
        let head = t.next();
        if head == Some("xcase") {
            let id = t.next().unwrap().to_string();
            let partial = t.next().unwrap() == "partial";
            assert_eq!(t.next(), Some("T"));
            let tag: u8 = t.next().unwrap().parse().unwrap();
            assert_eq!(t.next(), Some("P"));
            let n: usize = t.next().unwrap().parse().unwrap();
            let accepted: Vec<usize> = (0..n).map(|_| t.next().unwrap().parse().unwrap()).collect();
            assert_eq!(t.next(), Some("O"));
            let n: usize = t.next().unwrap().parse().unwrap();
            let ops: Vec<String> = (0..n).map(|_| t.next().unwrap().to_string()).collect();
            writeln!(out, "case {id}").unwrap();
            extras::run_xcase(partial, tag, &accepted, &ops, &mut out);
            writeln!(out, "--").unwrap();
            out.flush().unwrap();
            continue;
        }
        if head != Some("case") {
            continue;
        }
        let id = t.next().unwrap().to_string();
        let partial = t.next().unwrap() == "partial";
        assert_eq!(t.next(), Some("S"));
        let n: usize = t.next().unwrap().parse().unwrap();
        let script: Vec<Step> = (0..n).map(|_| parse_step(t.next().unwrap())).collect();
        assert_eq!(t.next(), Some("O"));
        let n: usize = t.next().unwrap().parse().unwrap();
        let ops: Vec<Op> = (0..n).map(|_| parse_op(t.next().unwrap())).collect();
        writeln!(out, "case {id}").unwrap();
        run_case(partial, &script, &ops, &mut out);
        writeln!(out, "--").unwrap();
        out.flush().unwrap();
    }
}

//! A mirrored trait the bundled mocks have no instance of: an "upstream" trait (it lives in its own module and is
//! mirrored with `mirror=`, exactly like src/mock/*.rs do) with associated constants -- one with a default that the
//! attribute overrides, one with a default that it keeps, one without default -- and provided methods of the
//! `&self`, `&mut self` and by-value receiver kinds that read those constants and call the required methods.
//! The same script drives a plain implementor and the mock; everything observable must coincide.
//!
//! xcase <id> strict|partial T <tag> P <n> <accepted>.. O <n> <op>..      op: all:<hex> | put:<hex> | desc | fin:<hex>

use std::cell::RefCell;
use std::collections::VecDeque;
use std::rc::Rc;

use unimock::*;

pub mod upstream {
    pub trait Chunked {
        const CHUNK: usize = 4;
        const PAD: u8 = 7;
        const LIMIT: usize;

        fn put(&mut self, chunk: &[u8]) -> usize;
        fn tag(&self) -> u8;

        fn put_all(&mut self, data: &[u8]) -> Vec<usize> {
            let mut out = vec![];
            let mut rest = data;
            let mut calls = 0;
            while !rest.is_empty() && calls < Self::LIMIT {
                let take = rest.len().min(Self::CHUNK);
                let n = self.put(&rest[..take]).min(take);
                out.push(n);
                calls += 1;
                if n == 0 {
                    break;
                }
                rest = &rest[n..];
            }
            out
        }
        fn describe(&self) -> String {
            format!("{}/{}/{}/{}", Self::CHUNK, Self::PAD, Self::LIMIT, self.tag())
        }
        /// provided methods that return `()`: in the mirror declaration their bodies are the placeholder `{}`
        fn flush(&mut self) {
            let _ = self.put(&[]);
            let _ = self.tag();
        }
        fn touch(&self) {
            let _ = self.tag();
        }
        fn finish(mut self, last: &[u8]) -> String
        where
            Self: Sized,
        {
            let take = last.len().min(Self::CHUNK);
            let n = self.put(&last[..take]);
            format!("{}+{}+{}", n, Self::LIMIT, self.tag())
        }
    }
}

#[unimock(api = ChunkedMock, mirror = upstream::Chunked, const CHUNK: usize = 2; const LIMIT: usize = 5;)]
pub trait Chunked {
    const CHUNK: usize = 4;
    const PAD: u8 = 7;
    const LIMIT: usize;

    fn put(&mut self, chunk: &[u8]) -> usize;
    fn tag(&self) -> u8;
    fn put_all(&mut self, data: &[u8]) -> Vec<usize> {}
    fn describe(&self) -> String {}
    fn flush(&mut self) {}
    fn touch(&self) {}
    fn finish(self, last: &[u8]) -> String
    where
        Self: Sized,
    {
    }
}

/// a NON-mirrored trait whose provided methods are no-op hooks with empty bodies, one per borrowed receiver kind
#[unimock(api = HooksMock)]
pub trait Hooks {
    fn before(&mut self) {}
    fn after(&self) {}
    fn pinned(self: std::pin::Pin<&mut Self>) {}
    fn count(&self) -> u8 {
        3
    }
}

impl Hooks for Plain {}

#[derive(Clone)]
pub struct Core {
    accepted: Rc<RefCell<VecDeque<usize>>>,
    log: Rc<RefCell<Vec<String>>>,
    tag: u8,
}

impl Core {
    fn put(&self, chunk: &[u8]) -> usize {
        self.log.borrow_mut().push(format!("put({})", chunk.iter().map(|b| format!("{b:02x}")).collect::<String>()));
        self.accepted.borrow_mut().pop_front().unwrap_or(0)
    }
    fn tag(&self) -> u8 {
        self.log.borrow_mut().push("tag".into());
        self.tag
    }
}

pub struct Plain(Core);

impl upstream::Chunked for Plain {
    const CHUNK: usize = 2;
    const LIMIT: usize = 5;
    fn put(&mut self, chunk: &[u8]) -> usize {
        self.0.put(chunk)
    }
    fn tag(&self) -> u8 {
        self.0.tag()
    }
}

thread_local! {
    static CORE: RefCell<Option<Core>> = RefCell::new(None);
}

fn mock(core: &Core, partial: bool) -> Unimock {
    CORE.with(|c| *c.borrow_mut() = Some(core.clone()));
    let clauses = (
        ChunkedMock::put
            .each_call(matching!(_))
            .answers(&|_, chunk| CORE.with(|c| c.borrow().as_ref().unwrap().put(chunk))),
        ChunkedMock::tag.each_call(matching!()).answers(&|_| CORE.with(|c| c.borrow().as_ref().unwrap().tag())),
    );
    if partial {
        Unimock::new_partial(clauses)
    } else {
        Unimock::new(clauses)
    }
}

fn hex(s: &str) -> Vec<u8> {
    (0..s.len() / 2).map(|i| u8::from_str_radix(&s[2 * i..2 * i + 2], 16).unwrap()).collect()
}

/// runs the ops on one implementor; `fin` consumes it (always the last op)
fn drive<T: upstream::Chunked + Hooks + Unpin>(mut t: T, ops: &[String], side: &str, out: &mut impl std::io::Write) {
    use std::panic::{catch_unwind, AssertUnwindSafe};
    for (k, op) in ops.iter().enumerate() {
        let (name, arg) = op.split_once(':').unwrap_or((op.as_str(), ""));
        if name == "fin" {
            let data = hex(arg);
            let r = catch_unwind(AssertUnwindSafe(move || t.finish(&data)));
            writeln!(out, "{side} r {}", r.unwrap_or_else(|p| format!("panic: {}", crate::panic_text(p).replace('\n', " ")))).unwrap();
            assert_eq!(k + 1, ops.len(), "fin must be the last op");
            return;
        }
        let r = catch_unwind(AssertUnwindSafe(|| match name {
            "all" => format!("{:?}", t.put_all(&hex(arg))),
            "put" => format!("{}", t.put(&hex(arg))),
            "desc" => t.describe(),
            "flush" => {
                t.flush();
                "flushed".to_string()
            }
            "touch" => {
                t.touch();
                "touched".to_string()
            }
            "hooks" => {
                // unmocked no-op hooks (empty default bodies) through every borrowed receiver kind: nothing happens
                Hooks::before(&mut t);
                Hooks::after(&t);
                Hooks::pinned(std::pin::Pin::new(&mut t));
                format!("hooks:{}", Hooks::count(&t))
            }
            "consts" => format!("{}/{}/{}", T::CHUNK, T::PAD, T::LIMIT),
            _ => panic!("bad op {op}"),
        }));
        match r {
            Ok(s) => writeln!(out, "{side} r {s}").unwrap(),
            Err(p) => {
                writeln!(out, "{side} r panic: {}", crate::panic_text(p).replace('\n', " ")).unwrap();
                break;
            }
        }
    }
    let r = catch_unwind(AssertUnwindSafe(move || drop(t)));
    writeln!(out, "{side} end={}", if r.is_ok() { "ok" } else { "panic" }).unwrap();
}

pub fn run_xcase(partial: bool, tag: u8, accepted: &[usize], ops: &[String], out: &mut impl std::io::Write) {
    for side in ["P", "M"] {
        let core = Core { accepted: Rc::new(RefCell::new(accepted.iter().copied().collect())), log: Rc::new(RefCell::new(vec![])), tag };
        if side == "P" {
            drive(Plain(core.clone()), ops, side, out);
        } else {
            drive(mock(&core, partial), ops, side, out);
        }
        writeln!(out, "{side} log {}", core.log.borrow().join(" ")).unwrap();
        writeln!(out, "{side} left={}", core.accepted.borrow().len()).unwrap();
    }
}

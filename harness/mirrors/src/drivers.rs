//! The operations a case drives through the UPSTREAM traits, generic over the
//! implementor: the same code runs on the plain scripted struct and on Unimock.

use std::fmt::Display;
use std::future::Future;
use std::hash::Hasher;
use std::io::{self, BufRead, IoSlice, IoSliceMut, Read, Seek, Write};
use std::pin::Pin;
use std::task::{Context, Poll, RawWaker, RawWakerVTable, Waker};

use embedded_hal::delay::DelayNs;
use embedded_hal::digital::{OutputPin, PinState, StatefulOutputPin};
use embedded_hal::pwm::SetDutyCycle;
use tokio::io::{AsyncRead, AsyncReadExt, AsyncWrite, AsyncWriteExt};

use crate::script::{fmt_bytes, kind_code};

#[derive(Clone, Debug)]
pub enum Arg {
    None,
    Num(u128),
    Bytes(Vec<u8>),
    Pair(u64, u64),
}

#[derive(Clone, Debug)]
pub struct Op {
    pub id: u32,
    pub arg: Arg,
}

pub fn noop_waker() -> Waker {
    fn clone(_: *const ()) -> RawWaker {
        RawWaker::new(std::ptr::null(), &VT)
    }
    fn noop(_: *const ()) {}
    static VT: RawWakerVTable = RawWakerVTable::new(clone, noop, noop, noop);
    unsafe { Waker::from_raw(RawWaker::new(std::ptr::null(), &VT)) }
}

/// hand-rolled executor: poll until ready (scripted Pending responses just cause another poll)
pub fn block_on<F: Future>(fut: F) -> F::Output {
    let waker = noop_waker();
    let mut cx = Context::from_waker(&waker);
    let mut fut = Box::pin(fut);
    for _ in 0..100_000 {
        if let Poll::Ready(v) = fut.as_mut().poll(&mut cx) {
            return v;
        }
    }
    panic!("block_on: still pending");
}

fn io_res<T>(r: io::Result<T>, show: impl Fn(&T) -> String) -> String {
    match r {
        Ok(v) => {
            let s = show(&v);
            if s.is_empty() { "ok".to_string() } else { format!("ok:{s}") }
        }
        Err(e) => format!("err:{}", kind_code(&e)),
    }
}
fn unit(_: &()) -> String {
    String::new()
}
fn num<T: ToString>(v: &T) -> String {
    v.to_string()
}
fn hal<T, E>(r: Result<T, E>, show: impl Fn(&T) -> String, code: &dyn Fn() -> u8) -> String {
    match r {
        Ok(v) => {
            let s = show(&v);
            if s.is_empty() { "ok".to_string() } else { format!("ok:{s}") }
        }
        Err(_) => format!("err:{}", code()),
    }
}

pub trait Target:
    Write + Read + BufRead + Seek + Hasher + DelayNs + Display + OutputPin + StatefulOutputPin + SetDutyCycle + AsyncRead + AsyncWrite + Unpin
{
}
impl<T> Target for T where
    T: Write + Read + BufRead + Seek + Hasher + DelayNs + Display + OutputPin + StatefulOutputPin + SetDutyCycle + AsyncRead + AsyncWrite + Unpin
{
}

pub fn run_op<T: Target>(t: &mut T, op: &Op, hal_code: &dyn Fn() -> u8) -> String {
    let bytes = || match &op.arg {
        Arg::Bytes(b) => b.clone(),
        _ => panic!("op {} needs bytes", op.id),
    };
    let n = || match &op.arg {
        Arg::Num(n) => *n,
        _ => panic!("op {} needs a number", op.id),
    };
    let pair = || match &op.arg {
        Arg::Pair(a, b) => (*a, *b),
        _ => panic!("op {} needs a pair", op.id),
    };
    match op.id {
        // ---- required methods called directly
        0 => io_res(Write::write(t, &bytes()), num),
        1 => io_res(Write::flush(t), unit),
        3 => {
            Hasher::write(t, &bytes());
            "ok".into()
        }
        4 => format!("ok:{}", Hasher::finish(t)),
        5 => {
            DelayNs::delay_ns(t, n() as u32);
            "ok".into()
        }
        6 => hal(OutputPin::set_low(t), unit, hal_code),
        7 => hal(OutputPin::set_high(t), unit, hal_code),
        8 => hal(StatefulOutputPin::is_set_high(t), |b| (*b as u8).to_string(), hal_code),
        9 => hal(StatefulOutputPin::is_set_low(t), |b| (*b as u8).to_string(), hal_code),
        10 => format!("ok:{}", SetDutyCycle::max_duty_cycle(t)),
        11 => hal(SetDutyCycle::set_duty_cycle(t, n() as u16), unit, hal_code),
        // ---- provided methods with a transcription in the Coq model
        32 => io_res(Write::write_all(t, &bytes()), unit),
        33 => {
            let mut buf = vec![0u8; n() as usize];
            let r = Read::read_exact(t, &mut buf);
            format!("{} buf={}", io_res(r, unit), fmt_bytes(&buf))
        }
        40 => { Hasher::write_u8(t, n() as u8); "ok".into() }
        41 => { Hasher::write_u16(t, n() as u16); "ok".into() }
        42 => { Hasher::write_u32(t, n() as u32); "ok".into() }
        43 => { Hasher::write_u64(t, n() as u64); "ok".into() }
        44 => { Hasher::write_u128(t, n()); "ok".into() }
        45 => { Hasher::write_usize(t, n() as usize); "ok".into() }
        46 => { Hasher::write_i8(t, n() as u8 as i8); "ok".into() }
        47 => { Hasher::write_i16(t, n() as u16 as i16); "ok".into() }
        48 => { Hasher::write_i32(t, n() as u32 as i32); "ok".into() }
        49 => { Hasher::write_i64(t, n() as u64 as i64); "ok".into() }
        50 => { Hasher::write_i128(t, n() as i128); "ok".into() }
        51 => { Hasher::write_isize(t, n() as usize as isize); "ok".into() }
        60 => { DelayNs::delay_us(t, n() as u32); "ok".into() }
        61 => { DelayNs::delay_ms(t, n() as u32); "ok".into() }
        62 => hal(OutputPin::set_state(t, if n() == 0 { PinState::Low } else { PinState::High }), unit, hal_code),
        63 => hal(StatefulOutputPin::toggle(t), unit, hal_code),
        64 => hal(SetDutyCycle::set_duty_cycle_fully_off(t), unit, hal_code),
        65 => hal(SetDutyCycle::set_duty_cycle_fully_on(t), unit, hal_code),
        66 => {
            let (a, b) = pair();
            hal(SetDutyCycle::set_duty_cycle_fraction(t, a as u16, b as u16), unit, hal_code)
        }
        67 => hal(SetDutyCycle::set_duty_cycle_percent(t, n() as u8), unit, hal_code),
        // ---- differential only (no transcription: the theorem is parametric in the body)
        100 => {
            let mut v = vec![0xAAu8];
            let r = Read::read_to_end(t, &mut v);
            format!("{} buf={}", io_res(r, num), fmt_bytes(&v))
        }
        101 => {
            let mut s = String::from("x");
            let r = Read::read_to_string(t, &mut s);
            format!("{} buf={}", io_res(r, num), fmt_bytes(s.as_bytes()))
        }
        102 => {
            let (a, b) = pair();
            let (mut x, mut y) = (vec![0u8; a as usize], vec![0u8; b as usize]);
            let r = Read::read_vectored(t, &mut [IoSliceMut::new(&mut x), IoSliceMut::new(&mut y)]);
            format!("{} buf={}{}", io_res(r, num), fmt_bytes(&x), fmt_bytes(&y))
        }
        103 => {
            let b = bytes();
            let (x, y) = b.split_at(b.len() / 3);
            io_res(Write::write_vectored(t, &[IoSlice::new(x), IoSlice::new(y)]), num)
        }
        104 => {
            let b = bytes();
            io_res(write!(t, "{}-{}", b.len(), String::from_utf8_lossy(&b)), unit)
        }
        105 => {
            let mut s = String::from(">");
            let r = BufRead::read_line(t, &mut s);
            format!("{} buf={}", io_res(r, num), fmt_bytes(s.as_bytes()))
        }
        106 => {
            let mut v = vec![1u8];
            let r = BufRead::read_until(t, n() as u8, &mut v);
            format!("{} buf={}", io_res(r, num), fmt_bytes(&v))
        }
        108 => io_res(Seek::rewind(t), unit),
        109 => io_res(Seek::stream_position(t), num),
        110 => {
            use std::fmt::Write as _;
            let mut s = String::new();
            let r = write!(s, "<{}>", t);
            format!("{} buf={}", if r.is_ok() { "ok" } else { "err:0" }, fmt_bytes(s.as_bytes()))
        }
        111 => {
            let s = format!("[{t}]");
            format!("ok buf={}", fmt_bytes(s.as_bytes()))
        }
        112 => {
            let mut buf = vec![0u8; n() as usize];
            let r = Read::read(t, &mut buf);
            format!("{} buf={}", io_res(r, num), fmt_bytes(&buf))
        }
        113 => io_res(BufRead::fill_buf(t).map(|s| s.to_vec()), |v| fmt_bytes(v)),
        114 => {
            BufRead::consume(t, n() as usize);
            "ok".into()
        }
        115 => io_res(Seek::seek(t, io::SeekFrom::Current(n() as i64 - 8)), num),
        // ---- tokio helper futures over the mirrored poll_* methods
        120 => io_res(block_on(AsyncWriteExt::write_all(t, &bytes())), unit),
        121 => {
            let mut buf = vec![0u8; n() as usize];
            let r = block_on(AsyncReadExt::read_exact(t, &mut buf));
            format!("{} buf={}", io_res(r, num), fmt_bytes(&buf))
        }
        122 => {
            let mut v = vec![0xBBu8];
            let r = block_on(AsyncReadExt::read_to_end(t, &mut v));
            format!("{} buf={}", io_res(r, num), fmt_bytes(&v))
        }
        123 => io_res(block_on(AsyncWriteExt::write(t, &bytes())), num),
        124 => io_res(block_on(AsyncWriteExt::flush(t)), unit),
        125 => io_res(block_on(AsyncWriteExt::shutdown(t)), unit),
        126 => {
            let mut buf = vec![0u8; n() as usize];
            let r = block_on(AsyncReadExt::read(t, &mut buf));
            format!("{} buf={}", io_res(r, num), fmt_bytes(&buf))
        }
        127 => {
            let b = bytes();
            let (x, y) = b.split_at(b.len() / 2);
            let r = block_on(AsyncWriteExt::write_vectored(t, &[IoSlice::new(x), IoSlice::new(y)]));
            format!("{} v={}", io_res(r, num), AsyncWrite::is_write_vectored(t))
        }
        128 => {
            let mut s = String::from("y");
            let r = block_on(AsyncReadExt::read_to_string(t, &mut s));
            format!("{} buf={}", io_res(r, num), fmt_bytes(s.as_bytes()))
        }
        other => panic!("unknown op {other}"),
    }
}

#[allow(dead_code)]
fn _pin_is_used(_: Pin<&mut ()>) {}

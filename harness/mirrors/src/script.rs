//! Scripts, the plain scripted struct and the mock that replays the same script
//! through ordered `answers_arc` clauses (one clause per script entry, built at
//! run time through the real builder API and `verif::DynClause`).
//!
//! Method ids (keep in sync with coq/Macro/StdBodies.v):
//!  0 io::Write::write   1 io::Write::flush   2 io::Read::read   3 Hasher::write  4 Hasher::finish
//!  5 DelayNs::delay_ns  6 OutputPin::set_low 7 OutputPin::set_high
//!  8 StatefulOutputPin::is_set_high  9 is_set_low  10 SetDutyCycle::max_duty_cycle  11 set_duty_cycle
//!  12 BufRead::fill_buf 13 BufRead::consume 14 Display::fmt 15 tokio poll_read 16 tokio poll_write
//!  17 tokio poll_flush  18 tokio poll_shutdown 19 io::Seek::seek

use std::fmt;
use std::io;
use std::pin::Pin;
use std::sync::{Arc, Mutex};
use std::task::{Context, Poll};

use unimock::mock::core::fmt::DisplayMock;
use unimock::mock::core::hash::HasherMock;
use unimock::mock::embedded_hal_1::delay::DelayNsMock;
use unimock::mock::embedded_hal_1::digital::{OutputPinMock, StatefulOutputPinMock};
use unimock::mock::embedded_hal_1::pwm::SetDutyCycleMock;
use unimock::mock::std::io::{BufReadMock, ReadMock, SeekMock, WriteMock};
use unimock::mock::tokio_1::io::{AsyncReadMock, AsyncWriteMock};
use unimock::*;

#[derive(Clone, Debug)]
pub enum Resp {
    Unit,
    Num(u64),
    Bytes(Vec<u8>),
    Err(u8),
    Pending,
}

#[derive(Clone, Debug)]
pub struct Step {
    pub mid: u8,
    pub resp: Resp,
}

pub struct Core {
    pub script: Vec<Step>,
    pub pos: usize,
    pub log: Vec<String>,
    pub last_err: u8,
}

pub type Shared = Arc<Mutex<Core>>;

pub fn new_core(script: &[Step]) -> Shared {
    Arc::new(Mutex::new(Core { script: script.to_vec(), pos: 0, log: vec![], last_err: 0 }))
}

fn lock(c: &Shared) -> std::sync::MutexGuard<'_, Core> {
    c.lock().unwrap_or_else(|e| e.into_inner())
}

/// the plain struct: pop the head of the script, which must belong to `mid`
pub fn next(c: &Shared, mid: u8, arg: String) -> Resp {
    let r = {
        let mut g = lock(c);
        let pos = g.pos;
        if pos < g.script.len() && g.script[pos].mid == mid {
            g.log.push(format!("{mid}({arg})"));
            g.pos += 1;
            Some(g.script[pos].resp.clone())
        } else {
            None
        }
    };
    match r {
        Some(r) => r,
        None => panic!("plain: call of method {mid} does not fit the script"),
    }
}

/// the k-th answer closure of the mock: log and respond with script[k]
pub fn hit(c: &Shared, k: usize, mid: u8, arg: String) -> Resp {
    let mut g = lock(c);
    g.log.push(format!("{mid}({arg})"));
    g.pos += 1;
    g.script[k].resp.clone()
}

pub fn log_line(c: &Shared) -> String {
    format!("log {}", lock(c).log.join(" "))
}
pub fn leftover(c: &Shared) -> usize {
    let g = lock(c);
    g.script.len() - g.pos
}
pub fn last_err(c: &Shared) -> u8 {
    lock(c).last_err
}

// ---------------------------------------------------------------- conversions shared by both sides

pub fn fmt_bytes(b: &[u8]) -> String {
    format!("[{}]", b.iter().map(|x| x.to_string()).collect::<Vec<_>>().join(","))
}

pub fn io_err(k: u8) -> io::Error {
    use io::ErrorKind::*;
    let kind = match k {
        0 => Interrupted,
        1 => Other,
        2 => BrokenPipe,
        3 => WouldBlock,
        4 => UnexpectedEof,
        5 => WriteZero,
        6 => InvalidData,
        7 => TimedOut,
        _ => PermissionDenied,
    };
    io::Error::new(kind, format!("scripted error {k}"))
}

pub fn kind_code(e: &io::Error) -> u8 {
    use io::ErrorKind::*;
    match e.kind() {
        Interrupted => 0,
        Other => 1,
        BrokenPipe => 2,
        WouldBlock => 3,
        UnexpectedEof => 4,
        WriteZero => 5,
        InvalidData => 6,
        TimedOut => 7,
        PermissionDenied => 8,
        _ => 99,
    }
}

fn bad(what: &str, r: &Resp) -> ! {
    panic!("ill-typed script: {what} got {r:?}")
}

pub fn r_usize(r: Resp) -> io::Result<usize> {
    match r {
        Resp::Num(n) => Ok(n as usize),
        Resp::Err(k) => Err(io_err(k)),
        r => bad("usize", &r),
    }
}
pub fn r_u64(r: Resp) -> io::Result<u64> {
    match r {
        Resp::Num(n) => Ok(n),
        Resp::Err(k) => Err(io_err(k)),
        r => bad("u64", &r),
    }
}
pub fn r_unit(r: Resp) -> io::Result<()> {
    match r {
        Resp::Unit => Ok(()),
        Resp::Err(k) => Err(io_err(k)),
        r => bad("unit", &r),
    }
}
pub fn r_read(r: Resp, buf: &mut [u8]) -> io::Result<usize> {
    match r {
        Resp::Bytes(d) => {
            let n = d.len().min(buf.len());
            buf[..n].copy_from_slice(&d[..n]);
            Ok(n)
        }
        Resp::Err(k) => Err(io_err(k)),
        r => bad("read", &r),
    }
}
pub fn r_fill(r: Resp) -> io::Result<&'static [u8]> {
    match r {
        Resp::Bytes(d) => Ok(Box::leak(d.into_boxed_slice())),
        Resp::Err(k) => Err(io_err(k)),
        r => bad("fill_buf", &r),
    }
}
pub fn r_plain_unit(r: Resp) {
    match r {
        Resp::Unit => (),
        r => bad("()", &r),
    }
}
pub fn r_plain_u64(r: Resp) -> u64 {
    match r {
        Resp::Num(n) => n,
        r => bad("u64", &r),
    }
}
pub fn r_fmt(r: Resp, f: &mut fmt::Formatter<'_>) -> fmt::Result {
    match r {
        Resp::Bytes(d) => f.write_str(&String::from_utf8_lossy(&d)),
        Resp::Err(_) => Err(fmt::Error),
        r => bad("fmt", &r),
    }
}
/// embedded-hal results: the error VALUE differs between the two sides (PlainErr / Unimock),
/// the scripted code is remembered in the core
pub fn r_hal<T, E>(c: &Shared, r: Resp, ok: impl Fn(&Resp) -> Option<T>, err: impl Fn(u8) -> E) -> Result<T, E> {
    if let Resp::Err(k) = r {
        lock(c).last_err = k;
        return Err(err(k));
    }
    match ok(&r) {
        Some(v) => Ok(v),
        None => bad("hal", &r),
    }
}
fn ok_unit(r: &Resp) -> Option<()> {
    matches!(r, Resp::Unit).then_some(())
}
fn ok_bool(r: &Resp) -> Option<bool> {
    match r {
        Resp::Num(n) => Some(*n != 0),
        _ => None,
    }
}
pub fn r_poll_read(r: Resp, buf: &mut tokio::io::ReadBuf<'_>) -> Poll<io::Result<()>> {
    match r {
        Resp::Bytes(d) => {
            let n = d.len().min(buf.remaining());
            buf.put_slice(&d[..n]);
            Poll::Ready(Ok(()))
        }
        Resp::Err(k) => Poll::Ready(Err(io_err(k))),
        Resp::Pending => Poll::Pending,
        r => bad("poll_read", &r),
    }
}
pub fn r_poll_usize(r: Resp) -> Poll<io::Result<usize>> {
    match r {
        Resp::Pending => Poll::Pending,
        r => Poll::Ready(r_usize(r)),
    }
}
pub fn r_poll_unit(r: Resp) -> Poll<io::Result<()>> {
    match r {
        Resp::Pending => Poll::Pending,
        r => Poll::Ready(r_unit(r)),
    }
}
pub fn fmt_seek(p: &io::SeekFrom) -> String {
    match p {
        io::SeekFrom::Start(n) => format!("s{n}"),
        io::SeekFrom::End(n) => format!("e{n}"),
        io::SeekFrom::Current(n) => format!("c{n}"),
    }
}

// ---------------------------------------------------------------- the plain scripted struct

pub struct Plain(pub Shared);

#[derive(Debug)]
pub struct PlainErr(pub u8);

impl io::Write for Plain {
    fn write(&mut self, buf: &[u8]) -> io::Result<usize> {
        r_usize(next(&self.0, 0, fmt_bytes(buf)))
    }
    fn flush(&mut self) -> io::Result<()> {
        r_unit(next(&self.0, 1, String::new()))
    }
}
impl io::Read for Plain {
    fn read(&mut self, buf: &mut [u8]) -> io::Result<usize> {
        r_read(next(&self.0, 2, buf.len().to_string()), buf)
    }
}
impl io::BufRead for Plain {
    fn fill_buf(&mut self) -> io::Result<&[u8]> {
        r_fill(next(&self.0, 12, String::new()))
    }
    fn consume(&mut self, amt: usize) {
        r_plain_unit(next(&self.0, 13, amt.to_string()))
    }
}
impl io::Seek for Plain {
    fn seek(&mut self, pos: io::SeekFrom) -> io::Result<u64> {
        r_u64(next(&self.0, 19, fmt_seek(&pos)))
    }
}
impl std::hash::Hasher for Plain {
    fn finish(&self) -> u64 {
        r_plain_u64(next(&self.0, 4, String::new()))
    }
    fn write(&mut self, bytes: &[u8]) {
        r_plain_unit(next(&self.0, 3, fmt_bytes(bytes)))
    }
}
impl embedded_hal::delay::DelayNs for Plain {
    fn delay_ns(&mut self, ns: u32) {
        r_plain_unit(next(&self.0, 5, ns.to_string()))
    }
}
impl fmt::Display for Plain {
    fn fmt(&self, f: &mut fmt::Formatter<'_>) -> fmt::Result {
        r_fmt(next(&self.0, 14, String::new()), f)
    }
}
impl embedded_hal::digital::Error for PlainErr {
    fn kind(&self) -> embedded_hal::digital::ErrorKind {
        embedded_hal::digital::ErrorKind::Other
    }
}
impl embedded_hal::pwm::Error for PlainErr {
    fn kind(&self) -> embedded_hal::pwm::ErrorKind {
        embedded_hal::pwm::ErrorKind::Other
    }
}
impl embedded_hal::digital::ErrorType for Plain {
    type Error = PlainErr;
}
impl embedded_hal::pwm::ErrorType for Plain {
    type Error = PlainErr;
}
impl embedded_hal::digital::OutputPin for Plain {
    fn set_low(&mut self) -> Result<(), PlainErr> {
        let r = next(&self.0, 6, String::new());
        r_hal(&self.0, r, ok_unit, PlainErr)
    }
    fn set_high(&mut self) -> Result<(), PlainErr> {
        let r = next(&self.0, 7, String::new());
        r_hal(&self.0, r, ok_unit, PlainErr)
    }
}
impl embedded_hal::digital::StatefulOutputPin for Plain {
    fn is_set_high(&mut self) -> Result<bool, PlainErr> {
        let r = next(&self.0, 8, String::new());
        r_hal(&self.0, r, ok_bool, PlainErr)
    }
    fn is_set_low(&mut self) -> Result<bool, PlainErr> {
        let r = next(&self.0, 9, String::new());
        r_hal(&self.0, r, ok_bool, PlainErr)
    }
}
impl embedded_hal::pwm::SetDutyCycle for Plain {
    fn max_duty_cycle(&self) -> u16 {
        r_plain_u64(next(&self.0, 10, String::new())) as u16
    }
    fn set_duty_cycle(&mut self, duty: u16) -> Result<(), PlainErr> {
        let r = next(&self.0, 11, duty.to_string());
        r_hal(&self.0, r, ok_unit, PlainErr)
    }
}
impl tokio::io::AsyncRead for Plain {
    fn poll_read(self: Pin<&mut Self>, _cx: &mut Context<'_>, buf: &mut tokio::io::ReadBuf<'_>) -> Poll<io::Result<()>> {
        r_poll_read(next(&self.0, 15, buf.remaining().to_string()), buf)
    }
}
impl tokio::io::AsyncWrite for Plain {
    fn poll_write(self: Pin<&mut Self>, _cx: &mut Context<'_>, buf: &[u8]) -> Poll<io::Result<usize>> {
        r_poll_usize(next(&self.0, 16, fmt_bytes(buf)))
    }
    fn poll_flush(self: Pin<&mut Self>, _cx: &mut Context<'_>) -> Poll<io::Result<()>> {
        r_poll_unit(next(&self.0, 17, String::new()))
    }
    fn poll_shutdown(self: Pin<&mut Self>, _cx: &mut Context<'_>) -> Poll<io::Result<()>> {
        r_poll_unit(next(&self.0, 18, String::new()))
    }
}

// ---------------------------------------------------------------- the mock replaying the same script

fn fill_sig<F>(f: F) -> F
where
    F: for<'u> Fn(&'u mut Unimock) -> io::Result<&'u [u8]> + Send + Sync,
{
    f
}

fn hal_err(_k: u8) -> Unimock {
    Unimock::new(())
}

pub fn build_mock(core: &Shared, partial: bool) -> Unimock {
    let mut dc = unimock::verif::DynClause::new();
    let mids: Vec<u8> = lock(core).script.iter().map(|s| s.mid).collect();
    for (k, mid) in mids.into_iter().enumerate() {
        let c = core.clone();
        match mid {
            0 => dc.push(WriteMock::write.next_call(matching!()).answers_arc(Arc::new(
                move |_: &mut Unimock, buf: &[u8]| r_usize(hit(&c, k, 0, fmt_bytes(buf))),
            ))),
            1 => dc.push(WriteMock::flush.next_call(matching!()).answers_arc(Arc::new(
                move |_: &mut Unimock| r_unit(hit(&c, k, 1, String::new())),
            ))),
            2 => dc.push(ReadMock::read.next_call(matching!()).answers_arc(Arc::new(
                move |_: &mut Unimock, buf: &mut [u8]| r_read(hit(&c, k, 2, buf.len().to_string()), buf),
            ))),
            3 => dc.push(HasherMock::write.next_call(matching!()).answers_arc(Arc::new(
                move |_: &mut Unimock, bytes: &[u8]| r_plain_unit(hit(&c, k, 3, fmt_bytes(bytes))),
            ))),
            4 => dc.push(HasherMock::finish.next_call(matching!()).answers_arc(Arc::new(
                move |_: &Unimock| r_plain_u64(hit(&c, k, 4, String::new())),
            ))),
            5 => dc.push(DelayNsMock::delay_ns.next_call(matching!()).answers_arc(Arc::new(
                move |_: &mut Unimock, ns: u32| r_plain_unit(hit(&c, k, 5, ns.to_string())),
            ))),
            6 => dc.push(OutputPinMock::set_low.next_call(matching!()).answers_arc(Arc::new(
                move |_: &mut Unimock| {
                    let r = hit(&c, k, 6, String::new());
                    r_hal(&c, r, ok_unit, hal_err)
                },
            ))),
            7 => dc.push(OutputPinMock::set_high.next_call(matching!()).answers_arc(Arc::new(
                move |_: &mut Unimock| {
                    let r = hit(&c, k, 7, String::new());
                    r_hal(&c, r, ok_unit, hal_err)
                },
            ))),
            8 => dc.push(StatefulOutputPinMock::is_set_high.next_call(matching!()).answers_arc(Arc::new(
                move |_: &mut Unimock| {
                    let r = hit(&c, k, 8, String::new());
                    r_hal(&c, r, ok_bool, hal_err)
                },
            ))),
            9 => dc.push(StatefulOutputPinMock::is_set_low.next_call(matching!()).answers_arc(Arc::new(
                move |_: &mut Unimock| {
                    let r = hit(&c, k, 9, String::new());
                    r_hal(&c, r, ok_bool, hal_err)
                },
            ))),
            10 => dc.push(SetDutyCycleMock::max_duty_cycle.next_call(matching!()).answers_arc(Arc::new(
                move |_: &Unimock| r_plain_u64(hit(&c, k, 10, String::new())) as u16,
            ))),
            11 => dc.push(SetDutyCycleMock::set_duty_cycle.next_call(matching!()).answers_arc(Arc::new(
                move |_: &mut Unimock, duty: u16| {
                    let r = hit(&c, k, 11, duty.to_string());
                    r_hal(&c, r, ok_unit, hal_err)
                },
            ))),
            12 => dc.push(BufReadMock::fill_buf.next_call(matching!()).answers_arc(Arc::new(fill_sig(
                move |_: &mut Unimock| match r_fill(hit(&c, k, 12, String::new())) {
                    Ok(s) => Ok(s),
                    Err(e) => Err(e),
                },
            )))),
            13 => dc.push(BufReadMock::consume.next_call(matching!()).answers_arc(Arc::new(
                move |_: &mut Unimock, amt: usize| r_plain_unit(hit(&c, k, 13, amt.to_string())),
            ))),
            14 => dc.push(DisplayMock::fmt.next_call(matching!()).answers_arc(Arc::new(
                move |_: &Unimock, f: &mut fmt::Formatter<'_>| r_fmt(hit(&c, k, 14, String::new()), f),
            ))),
            15 => dc.push(AsyncReadMock::poll_read.next_call(matching!()).answers_arc(Arc::new(
                move |_: &mut Unimock, _cx: &mut Context<'_>, buf: &mut tokio::io::ReadBuf<'_>| {
                    r_poll_read(hit(&c, k, 15, buf.remaining().to_string()), buf)
                },
            ))),
            16 => dc.push(AsyncWriteMock::poll_write.next_call(matching!()).answers_arc(Arc::new(
                move |_: &mut Unimock, _cx: &mut Context<'_>, buf: &[u8]| r_poll_usize(hit(&c, k, 16, fmt_bytes(buf))),
            ))),
            17 => dc.push(AsyncWriteMock::poll_flush.next_call(matching!()).answers_arc(Arc::new(
                move |_: &mut Unimock, _cx: &mut Context<'_>| r_poll_unit(hit(&c, k, 17, String::new())),
            ))),
            18 => dc.push(AsyncWriteMock::poll_shutdown.next_call(matching!()).answers_arc(Arc::new(
                move |_: &mut Unimock, _cx: &mut Context<'_>| r_poll_unit(hit(&c, k, 18, String::new())),
            ))),
            19 => dc.push(SeekMock::seek.next_call(matching!()).answers_arc(Arc::new(
                move |_: &mut Unimock, pos: io::SeekFrom| r_u64(hit(&c, k, 19, fmt_seek(&pos))),
            ))),
            other => panic!("unknown method id {other}"),
        }
    }
    if partial {
        Unimock::new_partial(dc)
    } else {
        Unimock::new(dc)
    }
}

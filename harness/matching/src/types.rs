//! Fixed value universe of the generated programs (mirrors coq/Macro/Matching.v `value`).
use unimock::*;

#[derive(Clone, Debug, PartialEq)]
pub enum E { A, B(i32), C { x: i32, y: bool } }

/// PartialEq is hand-written: `ne` is overridden and is NOT the negation of `eq` (it looks at the first field only), so that
/// ne!(..) must really evaluate `!=` and eq!(..) `==` (Macro/RustPat.v vneb)
#[derive(Clone)]
pub struct S { pub a: i32, pub b: bool }
/// Debug is hand-written too: it prints like the derived one and counts its runs (user code that a matcher must not run while it
/// only decides: mismatch diagnostics are built when the runtime asks for them, never during the unordered scan)
pub static S_DEBUG_RUNS: std::sync::atomic::AtomicUsize = std::sync::atomic::AtomicUsize::new(0);
impl std::fmt::Debug for S {
    fn fmt(&self, f: &mut std::fmt::Formatter<'_>) -> std::fmt::Result {
        S_DEBUG_RUNS.fetch_add(1, std::sync::atomic::Ordering::SeqCst);
        write!(f, "S {{ a: {}, b: {} }}", self.a, self.b)
    }
}
pub fn s_debug_runs() -> usize { S_DEBUG_RUNS.load(std::sync::atomic::Ordering::SeqCst) }
impl PartialEq for S {
    fn eq(&self, other: &S) -> bool { self.a == other.a && self.b == other.b }
    #[allow(clippy::partialeq_ne_impl)]
    fn ne(&self, other: &S) -> bool { self.a != other.a }
}

/// newtype over String: only reachable through AsRef<str>
#[derive(Clone, Debug, PartialEq)]
pub struct NS(pub String);
impl AsRef<str> for NS { fn as_ref(&self) -> &str { &self.0 } }

/// newtype over Vec<i32>: only reachable through AsRef<[i32]>
#[derive(Clone, Debug, PartialEq)]
pub struct NV(pub Vec<i32>);
impl AsRef<[i32]> for NV { fn as_ref(&self) -> &[i32] { &self.0 } }

/// constants and a unit variant under names that can be written as bare identifier patterns (the integer constants are
/// `&i32`: the matcher sees `&i32`, and rustc does not auto-dereference for constant patterns)
#[allow(non_upper_case_globals)]
pub const three: &i32 = &3;
pub const SEVEN: &i32 = &7;
#[allow(non_upper_case_globals)]
pub const neg_one: &i32 = &-1;
#[allow(non_upper_case_globals)]
pub const four: &i32 = &4;
#[allow(non_camel_case_types, unused_imports)]
pub use self::E::A as unit_a;

pub fn bit(b: bool) -> char { if b { '1' } else { '0' } }

/// one call on a fresh ordered mock: answered (true) or mock panic (false)
pub fn ordered<R>(f: impl FnOnce() -> R) -> bool {
    std::panic::catch_unwind(std::panic::AssertUnwindSafe(f)).is_ok()
}

pub fn dom_int() -> Vec<i32> { vec![-1, 3, 4, 7] }
pub fn dom_bool() -> Vec<bool> { vec![false, true] }
pub fn dom_opt() -> Vec<Option<i32>> { vec![None, Some(-1), Some(3), Some(7)] }
pub fn dom_enum() -> Vec<E> { vec![E::A, E::B(3), E::B(7), E::C { x: 3, y: true }] }
pub fn dom_struct() -> Vec<S> { vec![S { a: 3, b: false }, S { a: 3, b: true }, S { a: 7, b: false }, S { a: -1, b: true }] }
pub fn dom_pair() -> Vec<(i32, bool)> { vec![(3, false), (3, true), (7, true)] }
pub fn dom_str() -> Vec<&'static str> { vec!["", "ab", "abc", "b"] }
pub fn dom_string() -> Vec<String> { dom_str().into_iter().map(String::from).collect() }
pub fn dom_ns() -> Vec<NS> { dom_string().into_iter().map(NS).collect() }
pub fn dom_slice() -> Vec<&'static [i32]> { vec![&[], &[3], &[3, 7], &[7, 3, 3]] }
pub fn dom_vec() -> Vec<Vec<i32>> { dom_slice().into_iter().map(|s| s.to_vec()).collect() }
pub fn dom_nv() -> Vec<NV> { dom_vec().into_iter().map(NV).collect() }

//! Runs generated `matching!` programs (gen.rs, rewritten by /verif/vlib/props/C06.py on every run).
//! Every program evaluates one real `matching!(...)` invocation over its whole finite argument domain,
//! unordered (each_call: mismatch diagnostics off), ordered (next_call: diagnostics on), and a literal
//! Rust `match` written next to it (the rustc oracle).  Output per program:
//!   case <k> / U <bits> / O <bits> / R <bits> / D <runs of the user Debug impl of S during the unordered evaluations> / --
#![allow(warnings)]
mod types;
mod gen;

fn main() {
    std::panic::set_hook(Box::new(|_| {}));
    let args: Vec<String> = std::env::args().collect();
    let which: Vec<usize> = if args.len() > 1 {
        std::fs::read_to_string(&args[1]).expect("case file").lines()
            .filter_map(|l| { let mut t = l.split_whitespace(); if t.next() == Some("case") { t.next().and_then(|x| x.parse().ok()) } else { None } })
            .collect()
    } else { (0..gen::COUNT).collect() };
    for k in which {
        let (u, o, r, d) = gen::run(k);
        println!("case {k}\nU {u}\nO {o}\nR {r}\nD {d}\n--");
    }
}

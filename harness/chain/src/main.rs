//! Value-chain harness (C13).
//! Sequential case:  case <id> SEQ <k> (<kind> <n> <op>..)*      kind: o = original, c = clone of the previous instance
//!                         upper case (O / C): the instance is finally dropped WHILE ITS THREAD IS UNWINDING from a panic
//!                   op: r:<ty>:<v> = make_ref, m:<ty>:<v> = make_mut, M:<ty>:<v> / Q:0:<v> = a mocked `&mut self` method returning `&mut T` / `Option<&mut T>` answered with make_mut, l = live count,
//!                       h:<ty>:<v> = lend through the delegation helper (a `&self` provided method whose body calls a required
//!                                    method answered with `u.make_ref(..)`: the value lives in the helper's chain),
//!                       t = call a `&mut self` provided method (goes through AsMut<DefaultImplDelegator>)
//!                   ty: 0 = counted value A, 1 = counted value B (same layout, other type), 2 = zero-sized guard with Drop
//!   sessions run one after the other; all instances are dropped at the end (clones first) and the live count is printed.
//! Threaded case:    case <id> TH <k> (<n> <v>..)* S <len> <tid>..   threads share one &Unimock and make_ref their values (type 0)
//! Output: one line per op with the contents read back through ALL references still held, and the live count.

#[path = "../../sched/src/scheduler.rs"]
mod scheduler;

use std::io::{BufRead, Write};
use std::sync::atomic::{AtomicIsize, Ordering::SeqCst};
use unimock::*;

static LIVE: AtomicIsize = AtomicIsize::new(0);
/// live count at the start of the current case: a case that leaks must not shift the counts of the following ones
static BASE: AtomicIsize = AtomicIsize::new(0);
fn live() -> isize {
    LIVE.load(SeqCst) - BASE.load(SeqCst)
}

macro_rules! counted {
    ($name:ident) => {
        pub struct $name(u64);
        impl $name {
            fn new(v: u64) -> Self {
                LIVE.fetch_add(1, SeqCst);
                $name(v)
            }
        }
        impl Drop for $name {
            fn drop(&mut self) {
                LIVE.fetch_sub(1, SeqCst);
            }
        }
    };
}
counted!(ValA);
counted!(ValB);

/// zero-sized, but dropping it is observable
pub struct Guard;
impl Guard {
    fn new() -> Self {
        LIVE.fetch_add(1, SeqCst);
        Guard
    }
}
impl Drop for Guard {
    fn drop(&mut self) {
        LIVE.fetch_sub(1, SeqCst);
    }
}

/// lending through the delegation helper: the provided methods run their default bodies on the helper, whose
/// required methods are answered by lending a fresh value from the mock instance the answer function is handed
#[unimock(api = HMock)]
pub trait H {
    fn req_a(&self, v: u64) -> &ValA;
    fn req_b(&self, v: u64) -> &ValB;
    fn via_a(&self, v: u64) -> &ValA {
        self.req_a(v)
    }
    fn via_b(&self, v: u64) -> &ValB {
        self.req_b(v)
    }
    /// a required method with a `&mut self` receiver ...
    fn req_mut(&mut self) -> u64;
    /// ... called by the default body of a provided `&mut self` method: the body runs on the delegation helper and reaches the
    /// mock again through AsMut<Unimock>
    fn touch(&mut self) -> u64 {
        self.req_mut()
    }
    /// the same through a pinned receiver (DelegateToDefaultImpl for Pin<&mut Unimock>)
    fn touch_pin(self: std::pin::Pin<&mut Self>) -> u64 {
        7
    }
    /// `&mut` results (output kind MutLending, the polonius template of the attribute): answered with `u.make_mut(..)`
    fn mreq_a(&mut self, v: u64) -> &mut ValA;
    fn mreq_b(&mut self, v: u64) -> &mut ValB;
    /// ... and below an Option (a Mixed output with a `&mut` leaf)
    fn mopt_a(&mut self, v: u64) -> Option<&mut ValA>;
    /// a borrowed return configured with returns(): the value lives in the shared call pattern
    fn bor(&self) -> &ValA;
    /// answered with the number of live lent values at the moment of the call
    fn probe(&self) -> u64;
    /// by-value receiver: the instance travels into the delegation helper (to_delegator) and is dropped when the call returns;
    /// what it lent before must still be alive while the body runs
    fn consume(self) -> u64
    where
        Self: Sized,
    {
        self.probe()
    }
}

fn new_original() -> Unimock {
    let u = Unimock::new((
        HMock::req_a.each_call(matching!(_)).answers(&|u, v| u.make_ref(ValA::new(v))),
        HMock::req_b.each_call(matching!(_)).answers(&|u, v| u.make_ref(ValB::new(v))),
        HMock::bor.each_call(matching!()).returns(ValA::new(4242)),
        HMock::probe.each_call(matching!()).answers(&|_| live() as u64),
        HMock::req_mut.each_call(matching!()).returns(7u64),
        HMock::mreq_a.each_call(matching!(_)).answers(&|u, v| u.make_mut(ValA::new(v))),
        HMock::mreq_b.each_call(matching!(_)).answers(&|u, v| u.make_mut(ValB::new(v))),
        HMock::mopt_a.each_call(matching!(_)).answers(&|u, v| Some(u.make_mut(ValA::new(v)))),
    ));
    // verification is not what this harness is about: both clauses are used once up front (through a short-lived
    // clone, whose chain takes the two values with it) so that the original's teardown has nothing to report
    let c = u.clone();
    let _ = (H::req_a(&c, 0).0, H::req_b(&c, 0).0, H::bor(&c).0, H::probe(&c));
    let mut c = c;
    let _ = H::req_mut(&mut c);
    let _ = H::mreq_a(&mut c, 0).0;
    let _ = H::mreq_b(&mut c, 0).0;
    let _ = H::mopt_a(&mut c, 0).map(|m| m.0);
    drop(c);
    u
}

enum Held<'u> {
    A(&'u ValA),
    B(&'u ValB),
    G(&'u Guard),
}

impl Held<'_> {
    fn show(&self) -> String {
        match self {
            Held::A(r) => format!("0:{}", r.0),
            Held::B(r) => format!("1:{}", r.0),
            Held::G(_) => "2:0".to_string(),
        }
    }
}

#[derive(Clone, Copy)]
enum Op {
    Ref(u8, u64),
    Mut(u8, u64),
    /// the same through a mocked `&mut self` method with a `&mut` result (0, 1) or an `Option<&mut _>` result (3)
    MutM(u8, u64),
    Live,
    Help(u8, u64),
    Touch,
    TouchPin,
    Nvid,
    /// only as the last operation of the last session, which must be a clone
    Consume,
}

fn parse_op(s: &str) -> Op {
    let p: Vec<&str> = s.split(':').collect();
    match p[0] {
        "r" => Op::Ref(p[1].parse().unwrap(), p[2].parse().unwrap()),
        "m" => Op::Mut(p[1].parse().unwrap(), p[2].parse().unwrap()),
        "M" => Op::MutM(p[1].parse().unwrap(), p[2].parse().unwrap()),
        "Q" => Op::MutM(3, p[2].parse().unwrap()),
        "l" => Op::Live,
        "h" => Op::Help(p[1].parse().unwrap(), p[2].parse().unwrap()),
        "t" => Op::Touch,
        "p" => Op::TouchPin,
        "n" => Op::Nvid,
        "v" => Op::Consume,
        _ => panic!("bad op {s}"),
    }
}

fn show_all(held: &[Held]) -> String {
    held.iter().map(|h| h.show()).collect::<Vec<_>>().join(",")
}

/// consecutive shared-borrow operations; returns how many were consumed
fn shared_phase(u: &Unimock, ops: &[Op], out: &mut impl Write) -> usize {
    let mut held: Vec<Held> = vec![];
    let mut k = 0;
    while k < ops.len() {
        match ops[k] {
            Op::Ref(ty, v) => {
                held.push(match ty {
                    0 => Held::A(u.make_ref(ValA::new(v))),
                    1 => Held::B(u.make_ref(ValB::new(v))),
                    _ => Held::G(u.make_ref(Guard::new())),
                });
                writeln!(out, "[{}] live={}", show_all(&held), live()).unwrap();
            }
            Op::Help(ty, v) => {
                held.push(match ty {
                    0 => Held::A(H::via_a(u, v)),
                    _ => Held::B(H::via_b(u, v)),
                });
                writeln!(out, "[{}] live={}", show_all(&held), live()).unwrap();
            }
            Op::Live => writeln!(out, "[{}] live={}", show_all(&held), live()).unwrap(),
            Op::Mut(..) | Op::MutM(..) | Op::Touch | Op::TouchPin | Op::Nvid | Op::Consume => break,
        }
        k += 1;
    }
    k
}

fn session(u: &mut Unimock, ops: &[Op], out: &mut impl Write) {
    let mut k = 0;
    while k < ops.len() {
        k += shared_phase(u, &ops[k..], out);
        if k < ops.len() {
            if let Op::Mut(ty, v) = ops[k] {
                let shown = match ty {
                    0 => {
                        let m = u.make_mut(ValA::new(v));
                        m.0 += 1000;
                        format!("0:{}", m.0)
                    }
                    1 => {
                        let m = u.make_mut(ValB::new(v));
                        m.0 += 1000;
                        format!("1:{}", m.0)
                    }
                    _ => {
                        let _m = u.make_mut(Guard::new());
                        "2:0".to_string()
                    }
                };
                writeln!(out, "[{shown}] live={}", live()).unwrap();
                k += 1;
            } else if let Op::MutM(ty, v) = ops[k] {
                let shown = match ty {
                    0 => {
                        let m = H::mreq_a(u, v);
                        m.0 += 1000;
                        format!("0:{}", m.0)
                    }
                    1 => {
                        let m = H::mreq_b(u, v);
                        m.0 += 1000;
                        format!("1:{}", m.0)
                    }
                    _ => {
                        let m = H::mopt_a(u, v).expect("Some(&mut)");
                        m.0 += 1000;
                        format!("0:{}", m.0)
                    }
                };
                writeln!(out, "[{shown}] live={}", live()).unwrap();
                k += 1;
            } else if let Op::Touch = ops[k] {
                let r = H::touch(u);
                writeln!(out, "[touch{r}] live={}", live()).unwrap();
                k += 1;
            } else if let Op::TouchPin = ops[k] {
                let r = H::touch_pin(std::pin::Pin::new(&mut *u));
                writeln!(out, "[touch{r}] live={}", live()).unwrap();
                k += 1;
            } else if let Op::Nvid = ops[k] {
                // the builder method takes the instance by value (only legal on the original): a late call, after values were lent
                let taken = std::mem::replace(u, Unimock::new(()));
                *u = taken.no_verify_in_drop();
                writeln!(out, "[nvid] live={}", live()).unwrap();
                k += 1;
            } else if let Op::Consume = ops[k] {
                // the instance is moved into a provided method with a by-value receiver; an empty mock takes its place in the list
                let taken = std::mem::replace(u, Unimock::new(()));
                let seen = H::consume(taken);
                writeln!(out, "[consume{seen}] live={}", live()).unwrap();
                k += 1;
            }
        }
    }
}

fn run_seq(t: &mut std::str::SplitWhitespace, out: &mut impl Write) {
    let n: usize = t.next().unwrap().parse().unwrap();
    let mut insts: Vec<Unimock> = vec![];
    let mut unwinding: Vec<u8> = vec![];      // how the instance finally goes: 0 dropped, 1 dropped while unwinding, 2 verify()
    for _ in 0..n {
        let kind = t.next().unwrap();
        unwinding.push(if kind == "O" || kind == "C" { 1 } else if kind == "v" { 2 } else if kind == "R" { 3 } else { 0 });
        let kind = if kind == "v" || kind == "R" { "o".to_string() } else { kind.to_lowercase() };
        let kind = kind.as_str();
        let nops: usize = t.next().unwrap().parse().unwrap();
        let ops: Vec<Op> = (0..nops).map(|_| parse_op(t.next().unwrap())).collect();
        let mut u = match kind {
            "o" => new_original(),
            _ => insts.last().expect("clone of what").clone(),
        };
        session(&mut u, &ops, out);
        insts.push(u);
    }
    writeln!(out, "end live={}", live()).unwrap();
    while let Some(u) = insts.pop() {
        match unwinding.pop().unwrap() {
            1 => {
                // the instance goes out of scope because of a panic in the code under test: its Drop runs during unwinding
                let _ = std::panic::catch_unwind(std::panic::AssertUnwindSafe(move || {
                    let _owned = u;
                    panic!("code under test failed");
                }));
            }
            2 => {
                if std::panic::catch_unwind(std::panic::AssertUnwindSafe(move || u.verify())).is_err() {
                    writeln!(out, "verify panicked").unwrap();
                }
            }
            3 => {
                // the original is ended by Termination::report()
                use std::process::Termination;
                if std::panic::catch_unwind(std::panic::AssertUnwindSafe(move || u.report())).is_err() {
                    writeln!(out, "report panicked").unwrap();
                }
            }
            _ => drop(u),
        }
        writeln!(out, "dropped live={}", live()).unwrap();
    }
}

fn run_threads(t: &mut std::str::SplitWhitespace, out: &mut impl Write) {
    let nth: usize = t.next().unwrap().parse().unwrap();
    let mut vals: Vec<Vec<u64>> = vec![];
    for _ in 0..nth {
        let n: usize = t.next().unwrap().parse().unwrap();
        vals.push((0..n).map(|_| t.next().unwrap().parse().unwrap()).collect());
    }
    assert_eq!(t.next(), Some("S"));
    let slen: usize = t.next().unwrap().parse().unwrap();
    let schedule: Vec<usize> = (0..slen).map(|_| t.next().unwrap().parse().unwrap()).collect();
    let u = Unimock::new(());
    scheduler::begin(nth);
    let results: Vec<String> = std::thread::scope(|s| {
        let handles: Vec<_> = vals
            .iter()
            .enumerate()
            .map(|(tid, vs)| {
                let u = &u;
                s.spawn(move || {
                    scheduler::enter(tid);
                    let refs: Vec<&ValA> = vs.iter().map(|v| u.make_ref(ValA::new(*v))).collect();
                    scheduler::leave(tid);
                    refs
                })
            })
            .collect();
        scheduler::drive(&schedule, nth);
        let all: Vec<Vec<&ValA>> = handles.into_iter().map(|h| h.join().expect("worker")).collect();
        // read everything back only now, after all pushes: contents and distinctness
        let mut addrs: Vec<usize> = all.iter().flatten().map(|r| *r as *const ValA as usize).collect();
        addrs.sort();
        addrs.dedup();
        let total: usize = all.iter().map(|v| v.len()).sum();
        let mut lines: Vec<String> = all
            .iter()
            .enumerate()
            .map(|(tid, refs)| format!("T{tid} [{}]", refs.iter().map(|r| r.0.to_string()).collect::<Vec<_>>().join(",")))
            .collect();
        lines.push(format!("distinct={} of {}", addrs.len(), total));
        lines
    });
    for (tid, op, addr) in scheduler::finish() {
        writeln!(out, "t{tid} {op:?} {addr}").unwrap();
    }
    for l in results {
        writeln!(out, "{l}").unwrap();
    }
    writeln!(out, "end live={}", live()).unwrap();
    drop(u);
    writeln!(out, "dropped live={}", live()).unwrap();
}

/// free-running real threads (no scheduler): a search aid, not a proof
fn run_stress(t: &mut std::str::SplitWhitespace, out: &mut impl Write) {
    let nth: usize = t.next().unwrap().parse().unwrap();
    let per: usize = t.next().unwrap().parse().unwrap();
    let rounds: usize = t.next().unwrap().parse().unwrap();
    for round in 0..rounds {
        let before = LIVE.load(SeqCst);
        let u = Unimock::new(());
        let barrier = std::sync::Barrier::new(nth);
        let problem: Option<String> = std::thread::scope(|s| {
            let handles: Vec<_> = (0..nth)
                .map(|tid| {
                    let (u, barrier) = (&u, &barrier);
                    s.spawn(move || {
                        barrier.wait();
                        (0..per).map(|k| u.make_ref(ValA::new((tid * per + k) as u64))).collect::<Vec<&ValA>>()
                    })
                })
                .collect();
            let all: Vec<Vec<&ValA>> = handles.into_iter().map(|h| h.join().expect("worker")).collect();
            for (tid, refs) in all.iter().enumerate() {
                for (k, r) in refs.iter().enumerate() {
                    if r.0 != (tid * per + k) as u64 {
                        return Some(format!("round {round}: reference of thread {tid} for value {} shows {}", tid * per + k, r.0));
                    }
                }
            }
            let mut addrs: Vec<usize> = all.iter().flatten().map(|r| *r as *const ValA as usize).collect();
            addrs.sort();
            addrs.dedup();
            if addrs.len() != nth * per {
                return Some(format!("round {round}: {} distinct addresses for {} values", addrs.len(), nth * per));
            }
            if LIVE.load(SeqCst) - before != (nth * per) as isize {
                return Some(format!("round {round}: {} live values, {} lent", LIVE.load(SeqCst) - before, nth * per));
            }
            None
        });
        drop(u);
        if let Some(p) = problem {
            writeln!(out, "stress:FAIL {p}").unwrap();
            return;
        }
        if LIVE.load(SeqCst) != before {
            writeln!(out, "stress:FAIL round {round}: {} values leaked", LIVE.load(SeqCst) - before).unwrap();
            return;
        }
    }
    writeln!(out, "stress:ok").unwrap();
}

fn main() {
    std::panic::set_hook(Box::new(|_| {}));
    unimock::verif::sync::register(scheduler::hook);
    let args: Vec<String> = std::env::args().collect();
    let input: Box<dyn BufRead> = Box::new(std::io::BufReader::new(
        std::fs::File::open(&args[1]).expect("open case file"),
    ));
    let stdout = std::io::stdout();
    let mut out = std::io::BufWriter::new(stdout.lock());
    for line in input.lines() {
        let line = line.expect("read");
        let mut t = line.split_whitespace();
        if t.next() != Some("case") {
            continue;
        }
        let id = t.next().unwrap();
        writeln!(out, "case {id}").unwrap();
        BASE.store(LIVE.load(SeqCst), SeqCst);
        match t.next() {
            Some("SEQ") => run_seq(&mut t, &mut out),
            Some("TH") => run_threads(&mut t, &mut out),
            Some("STRESS") => run_stress(&mut t, &mut out),
            Some("BIG") => {
                // thousands of lent values on a thread with a small stack: lending and releasing must not recurse
                let n: u64 = t.next().unwrap().parse().unwrap();
                let kib: usize = t.next().unwrap().parse().unwrap();
                let line = std::thread::Builder::new()
                    .stack_size(kib * 1024)
                    .spawn(move || {
                        let before = LIVE.load(SeqCst);
                        let u = Unimock::new(());
                        let sum: u64 = {
                            let refs: Vec<&ValA> = (0..n).map(|v| u.make_ref(ValA::new(v))).collect();
                            refs.iter().map(|r| r.0).sum()
                        };
                        let during = LIVE.load(SeqCst) - before;
                        // (make_mut is not part of this run: replacing a long chain drops it recursively on the
                        //  unchanged tree too - noted in DESIGN.md as outside the property's "thousands of values")
                        drop(u);
                        format!("big sum={sum} during={during} end={}", LIVE.load(SeqCst) - before)
                    })
                    .unwrap()
                    .join()
                    .unwrap_or_else(|_| "big panicked".to_string());
                writeln!(out, "{line}").unwrap();
            }
            other => panic!("bad case kind {other:?}"),
        }
        writeln!(out, "--").unwrap();
        out.flush().unwrap();
    }
}

//! Baton-passing scheduler over the announcements of unimock::verif::sync.
//! A registered worker thread blocks in [hook] before every announced operation
//! until the controller grants it the next step.

use std::cell::Cell;
use std::sync::{Condvar, Mutex};
use unimock::verif::sync as vsync;

pub struct Inner {
    pub waiting: Vec<bool>,
    pub done: Vec<bool>,
    pub grant: Option<usize>,
    pub running: Option<usize>,
    pub trace: Vec<(usize, vsync::Op, usize)>,
}

pub static SCHED: Mutex<Option<Inner>> = Mutex::new(None);
pub static CV: Condvar = Condvar::new();

thread_local! {
    pub static TID: Cell<Option<usize>> = const { Cell::new(None) };
}

pub fn hook(op: vsync::Op, addr: usize) {
    let Some(tid) = TID.with(|t| t.get()) else { return };
    let mut g = SCHED.lock().unwrap();
    {
        let inner = g.as_mut().expect("scheduler");
        inner.waiting[tid] = true;
        if inner.running == Some(tid) {
            inner.running = None;
        }
    }
    CV.notify_all();
    loop {
        if g.as_ref().unwrap().grant == Some(tid) {
            break;
        }
        g = CV.wait(g).unwrap();
    }
    let inner = g.as_mut().unwrap();
    inner.grant = None;
    inner.waiting[tid] = false;
    inner.trace.push((tid, op, addr));
}

pub fn thread_done(tid: usize) {
    let mut g = SCHED.lock().unwrap();
    let inner = g.as_mut().unwrap();
    inner.done[tid] = true;
    if inner.running == Some(tid) {
        inner.running = None;
    }
    drop(g);
    CV.notify_all();
}

pub fn quiescent(inner: &Inner) -> bool {
    inner.running.is_none() && (0..inner.done.len()).all(|t| inner.done[t] || inner.waiting[t])
}

pub fn grant(tid: usize) {
    let mut g = SCHED.lock().unwrap();
    {
        let inner = g.as_mut().unwrap();
        if tid >= inner.done.len() || inner.done[tid] {
            return;
        }
        inner.grant = Some(tid);
        inner.running = Some(tid);
    }
    CV.notify_all();
    loop {
        g = CV.wait(g).unwrap();
        if quiescent(g.as_ref().unwrap()) {
            break;
        }
    }
}


/// Start a run with n worker threads.
pub fn begin(n: usize) {
    *SCHED.lock().unwrap() = Some(Inner {
        waiting: vec![false; n],
        done: vec![false; n],
        grant: None,
        running: None,
        trace: vec![],
    });
}

/// Controller: wait for the initial quiescence, follow the schedule, then let the
/// remaining threads finish in thread order.
pub fn drive(schedule: &[usize], n: usize) {
    {
        let mut g = SCHED.lock().unwrap();
        while !quiescent(g.as_ref().unwrap()) {
            g = CV.wait(g).unwrap();
        }
    }
    for tid in schedule {
        grant(*tid);
    }
    for tid in 0..n {
        loop {
            let done = SCHED.lock().unwrap().as_ref().unwrap().done[tid];
            if done {
                break;
            }
            grant(tid);
        }
    }
}

/// End of a run: the trace of granted operations.
pub fn finish() -> Vec<(usize, vsync::Op, usize)> {
    SCHED.lock().unwrap().take().unwrap().trace
}

pub fn enter(tid: usize) {
    TID.with(|t| t.set(Some(tid)));
}

pub fn leave(tid: usize) {
    TID.with(|t| t.set(None));
    thread_done(tid);
}

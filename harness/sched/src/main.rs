//! Controlled-scheduler harness (Layer B).  A case is a clause list, a list of
//! threads (each a list of calls made through its own clone of the mock) and a
//! schedule (a list of thread ids).  Every atomic operation / lock acquisition
//! of the runtime announces itself through unimock::verif::sync (cfg
//! unimock_verif); a thread blocks there until the schedule grants it the next
//! step, so the schedule decides the interleaving of the REAL code at the
//! granularity of its atomic operations.  After the schedule is exhausted the
//! remaining threads run to completion in thread order.
//!
//! Input line:  case <id> strict|partial[S] T <n> <terms..> TH <k> (<n_i> <m:a>..)* S <len> <tid>.. [X]
//! Output: new:.. / one line per granted operation `t<tid> <Op> <addr>` /
//!         `T<tid> <outcome>|<outcome>..` per thread / `verify:..`

#[path = "../../core/src/caseparse.rs"]
mod caseparse;
#[path = "../../core/src/interp.rs"]
mod interp;
#[path = "../../core/src/inventory.rs"]
mod inventory;
#[path = "../../core/src/walk.rs"]
mod walk;
mod scheduler;

pub use caseparse::{Op, Opener, Pat};
use caseparse::{build_clause, Toks};
use interp::{esc, panic_text};
use std::io::{BufRead, Write};
use std::panic::{catch_unwind, AssertUnwindSafe};
use unimock::verif::sync as vsync;
use unimock::*;

fn do_call(u: &Unimock, m: u32, a: u8) -> String {
    use inventory::*;
    match m {
        0 => u.m0(a).take(),
        1 => u.m1(a).take(),
        2 => u.m2(a).take(),
        3 => u.m3(a).take(),
        4 => u.m4(a).take(),
        5 => u.m5(a).take(),
        6 => <Unimock as G<u8>>::g(u, a).take(),
        7 => <Unimock as G<u16>>::g(u, a).take(),
        9 => take_triple(u.mt(a)),
        38 => <Unimock as R1>::get::<u8>(u, a).take(),
        40 => u.db(A8(a)).take(),
        39 => <Unimock as R2>::get::<u8>(u, a).take(),
        _ => panic!("harness: no such method {m}"),
    }
}

fn run_case(line: &str, out: &mut impl Write) {
    let mut t = Toks(line.split_whitespace());
    assert_eq!(t.next(), "case");
    let id = t.next().to_string();
    // a trailing `S`: the threads share the ORIGINAL by reference (scoped threads) instead of working through clones of it
    let fallback = t.next().to_string();
    // a trailing `R`: the original is ended by Termination::report() instead of verify()
    let report = fallback.contains('R');
    // a trailing `F`: FREE-RUNNING threads (no scheduler; started together behind a barrier): a search aid for races that need a
    // thread to be preempted at a point the hooks do not announce; only order-insensitive results are compared
    let free = fallback.contains('F');
    let fallback: String = fallback.chars().filter(|c| *c != 'R' && *c != 'F').collect();
    let shared = fallback.ends_with('S');
    let partial = fallback.trim_end_matches('S') == "partial";
    let terms = caseparse::parse_terms(&mut t);
    assert_eq!(t.next(), "TH");
    let nth: usize = t.num();
    let mut threads: Vec<Vec<(u32, u8)>> = vec![];
    for _ in 0..nth {
        let n: usize = t.num();
        let mut calls = vec![];
        for _ in 0..n {
            let (m, a) = t.next().split_once(':').expect("m:a");
            calls.push((m.parse().unwrap(), a.parse().unwrap()));
        }
        threads.push(calls);
    }
    assert_eq!(t.next(), "S");
    let slen: usize = t.num();
    let schedule: Vec<usize> = (0..slen).map(|_| t.num()).collect();
    writeln!(out, "case {id}").unwrap();

    let clause = match build_clause(&terms) {
        Ok(c) => c,
        Err(e) => {
            writeln!(out, "illtyped {e}").unwrap();
            return;
        }
    };
    let made = catch_unwind(AssertUnwindSafe(move || {
        if partial {
            Unimock::new_partial(clause)
        } else {
            Unimock::new(clause)
        }
    }));
    let original = match made {
        Ok(u) => u,
        Err(p) => {
            writeln!(out, "new:P:{}", esc(&panic_text(p))).unwrap();
            return;
        }
    };
    writeln!(out, "new:ok").unwrap();

    if !free {
        scheduler::begin(nth);
    }
    let barrier = std::sync::Barrier::new(nth);
    let outcomes: Vec<Vec<String>> = std::thread::scope(|s| {
        let barrier = &barrier;
        let handles: Vec<_> = threads
            .iter()
            .enumerate()
            .map(|(tid, calls)| {
                let owned = if shared { None } else { Some(original.clone()) };
                let orig_ref = &original;
                s.spawn(move || {
                    let u: &Unimock = owned.as_ref().unwrap_or(orig_ref);
                    if free {
                        barrier.wait();
                    } else {
                        scheduler::enter(tid);
                    }
                    let mut res = vec![];
                    for (m, a) in calls {
                        let r = catch_unwind(AssertUnwindSafe(|| do_call(u, *m, *a)));
                        res.push(match r {
                            Ok(v) => {
                                if v.is_empty() {
                                    "rdefault".to_string()
                                } else {
                                    v
                                }
                            }
                            Err(p) => format!("P:{}", esc(&panic_text(p))),
                        });
                    }
                    if !free {
                        scheduler::leave(tid);
                    }
                    drop(owned);
                    res
                })
            })
            .collect();
        if !free {
            scheduler::drive(&schedule, nth);
        }
        handles.into_iter().map(|h| h.join().expect("worker")).collect()
    });
    let trace = if free { vec![] } else { scheduler::finish() };
    for (tid, op, addr) in trace {
        writeln!(out, "t{tid} {op:?} {addr}").unwrap();
    }
    for (tid, res) in outcomes.iter().enumerate() {
        writeln!(out, "T{tid} {}", res.join("|")).unwrap();
    }
    if report {
        use std::process::{ExitCode, Termination};
        match catch_unwind(AssertUnwindSafe(move || original.report())) {
            Ok(code) => {
                let name = if format!("{code:?}") == format!("{:?}", ExitCode::SUCCESS) { "SUCCESS" } else { "FAILURE" };
                writeln!(out, "verify:exit:{name}").unwrap()
            }
            Err(p) => writeln!(out, "verify:P:{}", esc(&panic_text(p))).unwrap(),
        }
        return;
    }
    let v = catch_unwind(AssertUnwindSafe(move || original.verify()));
    match v {
        Ok(()) => writeln!(out, "verify:ok").unwrap(),
        Err(p) => writeln!(out, "verify:P:{}", esc(&panic_text(p))).unwrap(),
    }
}

fn main() {
    std::panic::set_hook(Box::new(|_| {}));
    vsync::register(scheduler::hook);
    let args: Vec<String> = std::env::args().collect();
    let input: Box<dyn BufRead> = Box::new(std::io::BufReader::new(
        std::fs::File::open(&args[1]).expect("open case file"),
    ));
    let stdout = std::io::stdout();
    let mut out = std::io::BufWriter::new(stdout.lock());
    for line in input.lines() {
        let line = line.expect("read");
        let line = line.trim();
        if line.is_empty() || line.starts_with('#') {
            continue;
        }
        run_case(line, &mut out);
        writeln!(out, "--").unwrap();
        out.flush().unwrap();
    }
}

//! Runs clause *trees* written as real Rust tuple expressions (generated into
//! gen.rs by /verif/vlib/props/C14.py on every run) through the shared event
//! interpreter.  Input lines: `case <id> <k> strict|partial E <n> <events...>`.

#[path = "../../core/src/interp.rs"]
mod interp;
#[path = "../../core/src/inventory.rs"]
mod inventory;
#[allow(unused_imports, non_snake_case, clippy::all)]
mod gen;

use std::io::{BufRead, Write};

fn main() {
    std::panic::set_hook(Box::new(|_| {}));
    let args: Vec<String> = std::env::args().collect();
    let input: Box<dyn BufRead> = Box::new(std::io::BufReader::new(
        std::fs::File::open(&args[1]).expect("open case file"),
    ));
    let stdout = std::io::stdout();
    let mut out = std::io::BufWriter::new(stdout.lock());
    for line in input.lines() {
        let line = line.expect("read");
        let mut t = line.split_whitespace();
        if t.next() != Some("case") {
            continue;
        }
        let id = t.next().unwrap().to_string();
        let k: usize = t.next().unwrap().parse().unwrap();
        let partial = interp::fallback_token(t.next().unwrap());
        assert_eq!(t.next(), Some("E"));
        let n: usize = t.next().unwrap().parse().unwrap();
        let events: Vec<interp::Event> = (0..n).map(|_| interp::parse_event(t.next().unwrap())).collect();
        writeln!(out, "case {id}").unwrap();
        interp::run_events(move || gen::construct(k, partial), &events, &mut out);
        writeln!(out, "--").unwrap();
        out.flush().unwrap();
    }
}

//! C05 probe crate: the same driver as harness/shapes, compiled separately for the shapes of the
//! recorded deviation class (RPIT future on a `&mut self` / `Pin<&mut Self>` receiver), whose
//! expansion is expected NOT to compile on the unchanged tree.  gen.rs is written by
//! /verif/vlib/props/C05.py on every run.
#![allow(dead_code)]

#[path = "../../shapes/src/support.rs"]
mod support;
#[allow(unused, non_snake_case, non_camel_case_types, clippy::all)]
mod gen;

use std::io::{BufRead, Write};

fn main() {
    std::panic::set_hook(Box::new(|_| {}));
    let args: Vec<String> = std::env::args().collect();
    let input = std::io::BufReader::new(std::fs::File::open(&args[1]).expect("open case file"));
    let stdout = std::io::stdout();
    let mut out = std::io::BufWriter::new(stdout.lock());
    for line in input.lines() {
        let line = line.expect("read");
        let mut t = line.split_whitespace();
        if t.next() != Some("case") {
            continue;
        }
        let id = t.next().unwrap().to_string();
        let k: usize = t.next().unwrap().parse().unwrap();
        writeln!(out, "case {id}").unwrap();
        support::reset();
        let res = std::panic::catch_unwind(std::panic::AssertUnwindSafe(move || gen::run(k)));
        for l in support::take() {
            writeln!(out, "{l}").unwrap();
        }
        if res.is_err() {
            writeln!(out, "PANIC").unwrap();
        }
        writeln!(out, "--").unwrap();
        out.flush().unwrap();
    }
}

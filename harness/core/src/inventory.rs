//! The fixed inventory of mocked traits the case interpreter works with.
//! Keep in sync with `hinfo` in /verif/coq/Model/Run.v.

use unimock::*;

use std::sync::atomic::{AtomicIsize, Ordering::SeqCst};

/// number of live values of each instrumented type (constructed - dropped)
pub static LIVE_VAL: AtomicIsize = AtomicIsize::new(0);
pub static LIVE_UNIQ: AtomicIsize = AtomicIsize::new(0);

#[derive(Debug, PartialEq)]
pub struct Val(String);

impl Val {
    pub fn new(s: impl Into<String>) -> Self {
        LIVE_VAL.fetch_add(1, SeqCst);
        Val(s.into())
    }
    pub fn take(mut self) -> String {
        std::mem::take(&mut self.0)
    }
}

impl Default for Val {
    fn default() -> Self {
        Val::new("")
    }
}

impl Drop for Val {
    fn drop(&mut self) {
        LIVE_VAL.fetch_sub(1, SeqCst);
    }
}

/// user code that panics: cloning a value whose tag is >= 1000
impl Clone for Val {
    fn clone(&self) -> Self {
        if let Some(n) = self.0.strip_prefix('r').and_then(|t| t.parse::<u32>().ok()) {
            if n >= 1000 {
                panic!("user:clone");
            }
        }
        Val::new(self.0.clone())
    }
}

/// not Clone
#[derive(Debug, PartialEq)]
pub struct Uniq(String);

impl Uniq {
    pub fn new(s: impl Into<String>) -> Self {
        LIVE_UNIQ.fetch_add(1, SeqCst);
        Uniq(s.into())
    }
    pub fn take(mut self) -> String {
        std::mem::take(&mut self.0)
    }
}

impl Drop for Uniq {
    fn drop(&mut self) {
        LIVE_UNIQ.fetch_sub(1, SeqCst);
    }
}

/// every invocation of a matcher function built by the walkers: (the pattern's debug id or 999, diagnostics being collected?)
pub static TRACE: std::sync::Mutex<Vec<(u32, bool)>> = std::sync::Mutex::new(Vec::new());

pub fn trace_push(id: u32, diag: bool) {
    TRACE.lock().unwrap_or_else(|e| e.into_inner()).push((id, diag));
}

pub fn trace_take() -> Vec<(u32, bool)> {
    std::mem::take(&mut *TRACE.lock().unwrap_or_else(|e| e.into_inner()))
}

/// 1: the next real function panics; 2: the next default body panics
pub static ARMED_GLOBAL: std::sync::atomic::AtomicU32 = std::sync::atomic::AtomicU32::new(0);

fn user_panic_if_armed(which: u32, what: &str) {
    use std::sync::atomic::Ordering::SeqCst;
    if ARMED_GLOBAL.load(SeqCst) == which {
        ARMED_GLOBAL.store(0, SeqCst);
        panic!("{what}");
    }
}

#[unimock(api=TMock, unmock_with=[real0, _, _, real2, _, real4, _])]
pub trait T {
    fn m0(&self, a: u8) -> Val;
    fn m1(&self, a: u8) -> Val;
    /// receiver-less provided fn: skipped by the macro, but it occupies an unmock_with slot
    fn assoc() -> u8
    where
        Self: Sized,
    {
        7
    }
    fn m2(&self, a: u8) -> Val {
        user_panic_if_armed(2, "user:dflt");
        Val::new(format!("dflt2({a})"))
    }
    fn m3(&self, a: u8) -> Val {
        user_panic_if_armed(2, "user:dflt");
        Val::new(format!("dflt3({a})"))
    }
    fn m4(&self, a: u8) -> Uniq;
    fn m5(&self, a: u8) -> Uniq;
}

pub fn real0(_: &impl T, a: u8) -> Val {
    user_panic_if_armed(1, "user:real");
    Val::new(format!("real0({a})"))
}
pub fn real2(_: &impl T, a: u8) -> Val {
    user_panic_if_armed(1, "user:real");
    Val::new(format!("real2({a})"))
}
pub fn real4(_: &impl T, a: u8) -> Uniq {
    user_panic_if_armed(1, "user:real");
    Uniq::new(format!("real4({a})"))
}

/// a return type with a borrowed element and TWO owned ones: a single-use response is two single-use slots
#[unimock(api=PMock)]
pub trait P {
    fn mt(&self, a: u8) -> (Uniq, &str, Uniq);
}

/// both owned components carry the tag
pub fn take_triple(t: (Uniq, &str, Uniq)) -> String {
    let (x, lent, y) = t;
    assert_eq!(lent, "lent");
    let (x, y) = (x.take(), y.take());
    assert_eq!(x, y);
    x
}

/// an argument type whose Debug impl is USER CODE with a visible effect: it counts its invocations (and prints like u8)
pub struct A8(pub u8);
pub static DEBUG_RUNS: std::sync::atomic::AtomicUsize = std::sync::atomic::AtomicUsize::new(0);
impl std::fmt::Debug for A8 {
    fn fmt(&self, f: &mut std::fmt::Formatter<'_>) -> std::fmt::Result {
        DEBUG_RUNS.fetch_add(1, SeqCst);
        if self.0 == 13 {
            // user code that panics while the runtime renders the call for an error message
            panic!("user:debug");
        }
        write!(f, "{}", self.0)
    }
}
#[unimock(api=DBMock, unmock_with=[real_db])]
pub trait DB {
    fn db(&self, a: A8) -> Val;
}
pub fn real_db(_: &impl DB, a: A8) -> Val {
    user_panic_if_armed(1, "user:real");
    Val::new(format!("real40({})", a.0))
}

/// two traits of one module with a SAME-NAMED method-generic method: two distinct MockFns
#[unimock(api=R1Mock)]
pub trait R1 {
    fn get<X: 'static>(&self, a: u8) -> Val;
}
#[unimock(api=R2Mock)]
pub trait R2 {
    fn get<X: 'static>(&self, a: u8) -> Val;
}

#[unimock(api=GMock)]
pub trait G<X> {
    fn g(&self, a: u8) -> Val;
}

// ---------------------------------------------------------------- delegation / unmocking inventory (C15, C16)
// Behind the cargo feature `dtrait`: its unmock_with list mixes signatures, so a macro change that shifts the
// association of list entries would stop this trait from compiling; the crates that do not need it (trait T only)
// keep building and can show a concrete failing call instead.
#[cfg(feature = "dtrait")]
pub use dtrait::*;

#[cfg(feature = "dtrait")]
mod dtrait {
    use super::*;
    use std::pin::Pin;
    use std::rc::Rc;
    use std::sync::Arc;

    /// the common default body: a % 4 required-method calls, alternating r0 / r1, arguments a, a+1, ..
    fn body<D1: D + ?Sized>(d: &D1, name: &str, a: u8) -> Val {
        user_panic_if_armed(2, "user:dflt");
        let mut parts = vec![];
        for j in 0..(a % 4) {
            // K is an associated constant with a trait default (2) that the #[unimock] attribute overrides (1): the
            // body must see the mock's value whichever instance (the mock itself or its delegation helper) runs it
            let arg = (a + j * D1::K) % 8;
            parts.push(if j % 2 == 0 { d.r0(arg).take() } else { d.r1(arg).take() });
        }
        Val::new(format!("{name}({a})[{}]", parts.join(",")))
    }

    #[unimock(api=DMock, unmock_with=[real_r0, _, real_u2(b, a), real_u3(self, b, a), _, _, _, _, _, _, real_mm, _, _, _, _, _, _, _, _], const K: u8 = 1;)]
    pub trait D {
        const K: u8 = 2;
        fn r0(&self, a: u8) -> Val;
        fn r1(&self, a: u8) -> Val;
        fn u2(&self, a: u8, b: u8) -> Val;
        fn u3(&self, a: u8, b: u8) -> Val;
        fn p_ref(&self, a: u8) -> Val {
            body(self, "dflt14", a)
        }
        fn p_mut(&mut self, a: u8) -> Val {
            body(self, "dflt15", a)
        }
        fn p_val(self, a: u8) -> Val
        where
            Self: Sized,
        {
            body(&self, "dflt16", a)
        }
        // (p_rc, p_arc and p_pin spell their receiver types with full paths, the pairs below with imported names)
        fn p_rc(self: std::rc::Rc<Self>, a: u8) -> Val {
            body(&*self, "dflt17", a)
        }
        fn p_arc(self: std::sync::Arc<Self>, a: u8) -> Val {
            body(&*self, "dflt18", a)
        }
        fn p_pin(self: core::pin::Pin<&mut Self>, a: u8) -> Val {
            body(&*self, "dflt19", a)
        }
        fn m_mut(&mut self, a: u8) -> Val;
        /// required method with an Rc receiver ...
        fn r_rc(self: Rc<Self>, a: u8) -> Val;
        /// ... called (consuming the pointer) from a provided method with the same receiver
        fn p_rc2(self: Rc<Self>, a: u8) -> Val {
            Val::new(format!("dflt24({a})[{}]", self.r_rc(a).take()))
        }
        /// the same pair with Arc receivers
        fn r_arc(self: Arc<Self>, a: u8) -> Val;
        fn p_arc2(self: Arc<Self>, a: u8) -> Val {
            Val::new(format!("dflt30({a})[{}]", self.r_arc(a).take()))
        }
        /// the same pair with by-value receivers: the instance travels into the helper and back (from_delegator)
        fn r_val(self, a: u8) -> Val
        where
            Self: Sized;
        fn p_val2(self, a: u8) -> Val
        where
            Self: Sized,
        {
            Val::new(format!("dflt34({a})[{}]", self.r_val(a).take()))
        }
        /// like p_rc2, but the body keeps a second pointer to the helper alive across the required call: the reverse
        /// conversion (from_delegator) then cannot take the helper apart and has to clone the mock out of it
        fn p_rc3(self: Rc<Self>, a: u8) -> Val {
            let keep = self.clone();
            let r = self.r_rc(a).take();
            drop(keep);
            Val::new(format!("dflt35({a})[{r}]"))
        }
        /// skipped by the macro, but occupies an unmock_with slot (last, so that nothing in this trait
        /// depends on how slots after a skipped function are counted; trait T covers that)
        fn assoc_d() -> u8
        where
            Self: Sized,
        {
            1
        }
    }

    pub fn real_r0(_: &impl D, a: u8) -> Val {
        user_panic_if_armed(1, "user:real");
        Val::new(format!("real10({a})"))
    }
    /// registered as `real_u2(b, a)`: explicit parameter expressions, no mock argument
    pub fn real_u2(x: u8, y: u8) -> Val {
        user_panic_if_armed(1, "user:real");
        Val::new(format!("real12({x},{y})"))
    }
    /// recursion through the mock: depth a.  Registered as `real_u3(self, b, a)`: explicit parameter expressions that
    /// start with the mock itself and list the inputs in another order than the declaration
    pub fn real_u3(d: &impl D, b: u8, a: u8) -> Val {
        user_panic_if_armed(1, "user:real");
        if a == 0 {
            Val::new(format!("base({b})"))
        } else {
            Val::new(format!("rec({})", d.u3(a - 1, b).take()))
        }
    }
    pub fn real_mm(_: &mut impl D, a: u8) -> Val {
        Val::new(format!("real20({a})"))
    }

    /// the hidden-API form (no `api=`): the MockFns cannot be named, so no clause can mention these methods; a call is answered
    /// by the default body, by the registered real function (partial mocks), or fails loudly
    #[unimock(unmock_with=[real_hreq, _])]
    pub trait HD {
        fn hreq(&self, a: u8) -> Val;
        fn hprov(&self, a: u8) -> Val {
            user_panic_if_armed(2, "user:dflt");
            Val::new(format!("dflt37({a})[{}]", self.hreq(a).take()))
        }
    }
    pub fn real_hreq(_: &impl HD, a: u8) -> Val {
        user_panic_if_armed(1, "user:real");
        Val::new(format!("real36({a})"))
    }

}

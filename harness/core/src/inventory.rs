//! The fixed inventory of mocked traits the case interpreter works with.
//! Keep in sync with `hinfo` in /verif/coq/Model/Run.v.

use unimock::*;

#[derive(Clone, Debug, Default, PartialEq)]
pub struct Val(pub String);

/// not Clone
#[derive(Debug, PartialEq)]
pub struct Uniq(pub String);

#[unimock(api=TMock, unmock_with=[real0, _, _, real2, _, real4, _])]
pub trait T {
    fn m0(&self, a: u8) -> Val;
    fn m1(&self, a: u8) -> Val;
    /// receiver-less provided fn: skipped by the macro, but it occupies an unmock_with slot
    fn assoc() -> u8
    where
        Self: Sized,
    {
        7
    }
    fn m2(&self, a: u8) -> Val {
        Val(format!("dflt2({a})"))
    }
    fn m3(&self, a: u8) -> Val {
        Val(format!("dflt3({a})"))
    }
    fn m4(&self, a: u8) -> Uniq;
    fn m5(&self, a: u8) -> Uniq;
}

pub fn real0(_: &impl T, a: u8) -> Val {
    Val(format!("real0({a})"))
}
pub fn real2(_: &impl T, a: u8) -> Val {
    Val(format!("real2({a})"))
}
pub fn real4(_: &impl T, a: u8) -> Uniq {
    Uniq(format!("real4({a})"))
}

#[unimock(api=GMock)]
pub trait G<X> {
    fn g(&self, a: u8) -> Val;
}

//! Clause-list part of a case line: types, parsing, and building the real clause.

use crate::walk;
use unimock::verif::DynClause;

#[derive(Clone, Debug)]
pub enum Op {
    Ret(u32),
    RetDefault,
    Ans(u32),
    AnsArc(u32),
    Panics(u32),
    Unmocked,
    DefaultImpl,
    Once,
    NTimes(usize),
    AtLeast(usize),
    Then,
}

#[derive(Clone, Debug)]
pub struct Pat {
    pub matcher: Option<u64>,
    pub dbg: Option<u32>,
    pub ops: Vec<Op>,
}

#[derive(Clone, Copy, Debug, PartialEq)]
pub enum Opener {
    Some,
    Each,
    Next,
}

#[derive(Clone, Debug)]
pub enum Term {
    Call(u32, Opener, Pat),
    Stub(u32, Vec<Pat>),
}

pub struct Toks<'a>(pub std::str::SplitWhitespace<'a>);
impl<'a> Toks<'a> {
    pub fn next(&mut self) -> &'a str {
        self.0.next().expect("unexpected end of case line")
    }
    pub fn num<N: std::str::FromStr>(&mut self) -> N
    where
        N::Err: std::fmt::Debug,
    {
        self.next().parse().expect("number")
    }
}

pub fn opt_num<N: std::str::FromStr>(s: &str) -> Option<N>
where
    N::Err: std::fmt::Debug,
{
    if s == "-" {
        None
    } else {
        Some(s.parse().expect("number"))
    }
}

pub fn parse_op(s: &str) -> Op {
    let (head, arg) = match s.split_once(':') {
        Some((h, a)) => (h, Some(a)),
        None => (s, None),
    };
    let n = || arg.expect("op arg").parse::<u32>().expect("op arg number");
    match head {
        "ret" => Op::Ret(n()),
        "retd" => Op::RetDefault,
        "ans" => Op::Ans(n()),
        "ansarc" => Op::AnsArc(n()),
        "pan" => Op::Panics(n()),
        "unm" => Op::Unmocked,
        "dfl" => Op::DefaultImpl,
        "once" => Op::Once,
        "n" => Op::NTimes(n() as usize),
        "al" => Op::AtLeast(n() as usize),
        "then" => Op::Then,
        _ => panic!("bad op {s}"),
    }
}

pub fn parse_pat(t: &mut Toks) -> Pat {
    let matcher = opt_num::<u64>(t.next());
    let dbg = opt_num::<u32>(t.next());
    let nops: usize = t.num();
    let ops = (0..nops).map(|_| parse_op(t.next())).collect();
    Pat { matcher, dbg, ops }
}


/// `T <n> <terms...>`
pub fn parse_terms(t: &mut Toks) -> Vec<Term> {
    assert_eq!(t.next(), "T");
    let nterms: usize = t.num();
    let mut terms = vec![];
    for _ in 0..nterms {
        match t.next() {
            "c" => {
                let mid: u32 = t.num();
                let opener = match t.next() {
                    "some" => Opener::Some,
                    "each" => Opener::Each,
                    "next" => Opener::Next,
                    other => panic!("bad opener {other}"),
                };
                terms.push(Term::Call(mid, opener, parse_pat(t)));
            }
            "s" => {
                let mid: u32 = t.num();
                let npats: usize = t.num();
                let pats = (0..npats).map(|_| parse_pat(t)).collect();
                terms.push(Term::Stub(mid, pats));
            }
            other => panic!("bad term {other}"),
        }
    }
    terms
}

pub fn build_clause(terms: &[Term]) -> Result<DynClause, String> {
    let mut dc = DynClause::new();
    for t in terms {
        match t {
            Term::Call(mid, opener, pat) => walk::push_call(&mut dc, *mid, *opener, pat)?,
            Term::Stub(mid, pats) => walk::push_stub(&mut dc, *mid, pats)?,
        }
    }
    Ok(dc)
}


//! Case interpreter: reads cases (one per line) from the file given as first
//! argument (or stdin), executes them against the real unimock crate and
//! prints one observation line per event.  Format: see /verif/gen/cases.py.

mod interp;
mod inventory;
mod walk;

use interp::Event;
use std::io::{BufRead, Write};
use unimock::verif::DynClause;
use unimock::*;

#[derive(Clone, Debug)]
pub enum Op {
    Ret(u32),
    RetDefault,
    Ans(u32),
    AnsArc(u32),
    Panics(u32),
    Unmocked,
    DefaultImpl,
    Once,
    NTimes(usize),
    AtLeast(usize),
    Then,
}

#[derive(Clone, Debug)]
pub struct Pat {
    pub matcher: Option<u64>,
    pub dbg: Option<u32>,
    pub ops: Vec<Op>,
}

#[derive(Clone, Copy, Debug, PartialEq)]
pub enum Opener {
    Some,
    Each,
    Next,
}

#[derive(Clone, Debug)]
enum Term {
    Call(u32, Opener, Pat),
    Stub(u32, Vec<Pat>),
}

struct Case {
    id: String,
    partial: bool,
    terms: Vec<Term>,
    events: Vec<Event>,
}

struct Toks<'a>(std::str::SplitWhitespace<'a>);
impl<'a> Toks<'a> {
    fn next(&mut self) -> &'a str {
        self.0.next().expect("unexpected end of case line")
    }
    fn num<N: std::str::FromStr>(&mut self) -> N
    where
        N::Err: std::fmt::Debug,
    {
        self.next().parse().expect("number")
    }
}

fn opt_num<N: std::str::FromStr>(s: &str) -> Option<N>
where
    N::Err: std::fmt::Debug,
{
    if s == "-" {
        None
    } else {
        Some(s.parse().expect("number"))
    }
}

fn parse_op(s: &str) -> Op {
    let (head, arg) = match s.split_once(':') {
        Some((h, a)) => (h, Some(a)),
        None => (s, None),
    };
    let n = || arg.expect("op arg").parse::<u32>().expect("op arg number");
    match head {
        "ret" => Op::Ret(n()),
        "retd" => Op::RetDefault,
        "ans" => Op::Ans(n()),
        "ansarc" => Op::AnsArc(n()),
        "pan" => Op::Panics(n()),
        "unm" => Op::Unmocked,
        "dfl" => Op::DefaultImpl,
        "once" => Op::Once,
        "n" => Op::NTimes(n() as usize),
        "al" => Op::AtLeast(n() as usize),
        "then" => Op::Then,
        _ => panic!("bad op {s}"),
    }
}

fn parse_pat(t: &mut Toks) -> Pat {
    let matcher = opt_num::<u64>(t.next());
    let dbg = opt_num::<u32>(t.next());
    let nops: usize = t.num();
    let ops = (0..nops).map(|_| parse_op(t.next())).collect();
    Pat { matcher, dbg, ops }
}

fn parse_case(line: &str) -> Case {
    let mut t = Toks(line.split_whitespace());
    assert_eq!(t.next(), "case");
    let id = t.next().to_string();
    let partial = match t.next() {
        "strict" => false,
        "partial" => true,
        other => panic!("bad fallback {other}"),
    };
    assert_eq!(t.next(), "T");
    let nterms: usize = t.num();
    let mut terms = vec![];
    for _ in 0..nterms {
        match t.next() {
            "c" => {
                let mid: u32 = t.num();
                let opener = match t.next() {
                    "some" => Opener::Some,
                    "each" => Opener::Each,
                    "next" => Opener::Next,
                    other => panic!("bad opener {other}"),
                };
                terms.push(Term::Call(mid, opener, parse_pat(&mut t)));
            }
            "s" => {
                let mid: u32 = t.num();
                let npats: usize = t.num();
                let pats = (0..npats).map(|_| parse_pat(&mut t)).collect();
                terms.push(Term::Stub(mid, pats));
            }
            other => panic!("bad term {other}"),
        }
    }
    assert_eq!(t.next(), "E");
    let nev: usize = t.num();
    let mut events = vec![];
    for _ in 0..nev {
        events.push(interp::parse_event(t.next()));
    }
    Case {
        id,
        partial,
        terms,
        events,
    }
}

fn build_clause(terms: &[Term]) -> Result<DynClause, String> {
    let mut dc = DynClause::new();
    for t in terms {
        match t {
            Term::Call(mid, opener, pat) => walk::push_call(&mut dc, *mid, *opener, pat)?,
            Term::Stub(mid, pats) => walk::push_stub(&mut dc, *mid, pats)?,
        }
    }
    Ok(dc)
}

fn run_case(case: &Case, out: &mut impl Write) {
    if let Err(e) = build_clause(&case.terms) {
        writeln!(out, "illtyped {e}").unwrap();
        return;
    }
    let partial = case.partial;
    interp::run_events(
        || {
            let clause = build_clause(&case.terms).expect("built before");
            if partial {
                Unimock::new_partial(clause)
            } else {
                Unimock::new(clause)
            }
        },
        &case.events,
        out,
    );
}

fn main() {
    std::panic::set_hook(Box::new(|_| {}));
    let args: Vec<String> = std::env::args().collect();
    let input: Box<dyn BufRead> = if args.len() > 1 {
        Box::new(std::io::BufReader::new(
            std::fs::File::open(&args[1]).expect("open case file"),
        ))
    } else {
        Box::new(std::io::BufReader::new(std::io::stdin()))
    };
    let stdout = std::io::stdout();
    let mut out = std::io::BufWriter::new(stdout.lock());
    for line in input.lines() {
        let line = line.expect("read");
        let line = line.trim();
        if line.is_empty() || line.starts_with('#') {
            continue;
        }
        let case = parse_case(line);
        writeln!(out, "case {}", case.id).unwrap();
        out.flush().unwrap();
        run_case(&case, &mut out);
        writeln!(out, "--").unwrap();
        out.flush().unwrap();
    }
}

//! Case interpreter: reads cases (one per line) from the file given as first
//! argument (or stdin), executes them against the real unimock crate and
//! prints one observation line per event.  Format: see /verif/gen/cases.py.

mod caseparse;
mod interp;
mod inventory;
mod walk;

use interp::Event;
use std::io::{BufRead, Write};
use caseparse::{build_clause, Term, Toks};
pub use caseparse::{Op, Opener, Pat};
use unimock::*;

struct Case {
    id: String,
    partial: bool,
    terms: Vec<Term>,
    events: Vec<Event>,
}

fn parse_case(line: &str) -> Case {
    let mut t = Toks(line.split_whitespace());
    assert_eq!(t.next(), "case");
    let id = t.next().to_string();
    let partial = interp::fallback_token(t.next());
    let terms = caseparse::parse_terms(&mut t);
    assert_eq!(t.next(), "E");
    let nev: usize = t.num();
    let mut events = vec![];
    for _ in 0..nev {
        events.push(interp::parse_event(t.next()));
    }
    Case {
        id,
        partial,
        terms,
        events,
    }
}

fn run_case(case: &Case, out: &mut impl Write) {
    if let Err(e) = build_clause(&case.terms) {
        writeln!(out, "illtyped {e}").unwrap();
        return;
    }
    let partial = case.partial;
    interp::run_events(
        || {
            let clause = build_clause(&case.terms).expect("built before");
            if partial {
                Unimock::new_partial(clause)
            } else {
                Unimock::new(clause)
            }
        },
        &case.events,
        out,
    );
}

fn main() {
    std::panic::set_hook(Box::new(|_| {}));
    let args: Vec<String> = std::env::args().collect();
    let input: Box<dyn BufRead> = if args.len() > 1 {
        Box::new(std::io::BufReader::new(
            std::fs::File::open(&args[1]).expect("open case file"),
        ))
    } else {
        Box::new(std::io::BufReader::new(std::io::stdin()))
    };
    let stdout = std::io::stdout();
    let mut out = std::io::BufWriter::new(stdout.lock());
    for line in input.lines() {
        let line = line.expect("read");
        let line = line.trim();
        if line.is_empty() || line.starts_with('#') {
            continue;
        }
        if line == "info" {
            // static facts of every MockFn of the inventory, as the runtime sees them (verif::mock_fn_facts)
            writeln!(out, "case info").unwrap();
            macro_rules! facts {
                ($mid:expr, $f:ty) => {{
                    let (t, m, d, p) = unimock::verif::mock_fn_facts::<$f>();
                    writeln!(out, "{} {} {} {} {}", $mid, t, m, d, p).unwrap();
                }};
            }
            use inventory::*;
            facts!(0, TMock::m0);
            facts!(1, TMock::m1);
            facts!(2, TMock::m2);
            facts!(3, TMock::m3);
            facts!(4, TMock::m4);
            facts!(5, TMock::m5);
            fn facts_of<F: MockFn>(_: F) -> (&'static str, &'static str, bool, bool) {
                unimock::verif::mock_fn_facts::<F>()
            }
            for (mid, (t, m, d, p)) in [(6, facts_of(GMock::g.with_types::<u8>())), (7, facts_of(GMock::g.with_types::<u16>())),
                                        (38, facts_of(R1Mock::get.with_types::<u8>())), (39, facts_of(R2Mock::get.with_types::<u8>()))] {
                writeln!(out, "{mid} {t} {m} {d} {p}").unwrap();
            }
            #[cfg(feature = "std-build")]
            facts!(8, unimock::mock::std::process::TerminationMock::report);
            facts!(9, PMock::mt);
            facts!(40, DBMock::db);
            #[cfg(feature = "dtrait")]
            {
                facts!(10, DMock::r0);
                facts!(11, DMock::r1);
                facts!(12, DMock::u2);
                facts!(13, DMock::u3);
                facts!(14, DMock::p_ref);
                facts!(15, DMock::p_mut);
                facts!(16, DMock::p_val);
                facts!(17, DMock::p_rc);
                facts!(18, DMock::p_arc);
                facts!(19, DMock::p_pin);
                facts!(20, DMock::m_mut);
                facts!(23, DMock::r_rc);
                facts!(24, DMock::p_rc2);
                facts!(29, DMock::r_arc);
                facts!(30, DMock::p_arc2);
                facts!(33, DMock::r_val);
                facts!(34, DMock::p_val2);
                facts!(35, DMock::p_rc3);
            }
            writeln!(out, "--").unwrap();
            out.flush().unwrap();
            continue;
        }
        let case = parse_case(line);
        writeln!(out, "case {}", case.id).unwrap();
        out.flush().unwrap();
        run_case(&case, &mut out);
        writeln!(out, "--").unwrap();
        out.flush().unwrap();
    }
}

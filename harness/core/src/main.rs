//! Case interpreter: reads cases (one per line) from the file given as first
//! argument (or stdin), executes them against the real unimock crate and
//! prints one observation line per event.  Format: see /verif/gen/cases.py.

mod inventory;
mod walk;

use inventory::*;
use std::io::{BufRead, Write};
use std::panic::{catch_unwind, AssertUnwindSafe};
use unimock::verif::DynClause;
use unimock::*;

#[derive(Clone, Debug)]
pub enum Op {
    Ret(u32),
    RetDefault,
    Ans(u32),
    AnsArc(u32),
    Panics(u32),
    Unmocked,
    DefaultImpl,
    Once,
    NTimes(usize),
    AtLeast(usize),
    Then,
}

#[derive(Clone, Debug)]
pub struct Pat {
    pub matcher: Option<u64>,
    pub dbg: Option<u32>,
    pub ops: Vec<Op>,
}

#[derive(Clone, Copy, Debug, PartialEq)]
pub enum Opener {
    Some,
    Each,
    Next,
}

#[derive(Clone, Debug)]
enum Term {
    Call(u32, Opener, Pat),
    Stub(u32, Vec<Pat>),
}

#[derive(Clone, Debug)]
enum Base {
    Call(usize, u32, u8),
    Clone(usize),
    Drop(usize),
    Verify(usize),
    Nvid(usize),
    Report(usize),
}

#[derive(Clone, Debug)]
struct Event {
    other: bool,
    unwinding: bool,
    base: Base,
}

struct Case {
    id: String,
    partial: bool,
    terms: Vec<Term>,
    events: Vec<Event>,
}

struct Toks<'a>(std::str::SplitWhitespace<'a>);
impl<'a> Toks<'a> {
    fn next(&mut self) -> &'a str {
        self.0.next().expect("unexpected end of case line")
    }
    fn num<N: std::str::FromStr>(&mut self) -> N
    where
        N::Err: std::fmt::Debug,
    {
        self.next().parse().expect("number")
    }
}

fn opt_num<N: std::str::FromStr>(s: &str) -> Option<N>
where
    N::Err: std::fmt::Debug,
{
    if s == "-" {
        None
    } else {
        Some(s.parse().expect("number"))
    }
}

fn parse_op(s: &str) -> Op {
    let (head, arg) = match s.split_once(':') {
        Some((h, a)) => (h, Some(a)),
        None => (s, None),
    };
    let n = || arg.expect("op arg").parse::<u32>().expect("op arg number");
    match head {
        "ret" => Op::Ret(n()),
        "retd" => Op::RetDefault,
        "ans" => Op::Ans(n()),
        "ansarc" => Op::AnsArc(n()),
        "pan" => Op::Panics(n()),
        "unm" => Op::Unmocked,
        "dfl" => Op::DefaultImpl,
        "once" => Op::Once,
        "n" => Op::NTimes(n() as usize),
        "al" => Op::AtLeast(n() as usize),
        "then" => Op::Then,
        _ => panic!("bad op {s}"),
    }
}

fn parse_pat(t: &mut Toks) -> Pat {
    let matcher = opt_num::<u64>(t.next());
    let dbg = opt_num::<u32>(t.next());
    let nops: usize = t.num();
    let ops = (0..nops).map(|_| parse_op(t.next())).collect();
    Pat { matcher, dbg, ops }
}

fn parse_case(line: &str) -> Case {
    let mut t = Toks(line.split_whitespace());
    assert_eq!(t.next(), "case");
    let id = t.next().to_string();
    let partial = match t.next() {
        "strict" => false,
        "partial" => true,
        other => panic!("bad fallback {other}"),
    };
    assert_eq!(t.next(), "T");
    let nterms: usize = t.num();
    let mut terms = vec![];
    for _ in 0..nterms {
        match t.next() {
            "c" => {
                let mid: u32 = t.num();
                let opener = match t.next() {
                    "some" => Opener::Some,
                    "each" => Opener::Each,
                    "next" => Opener::Next,
                    other => panic!("bad opener {other}"),
                };
                terms.push(Term::Call(mid, opener, parse_pat(&mut t)));
            }
            "s" => {
                let mid: u32 = t.num();
                let npats: usize = t.num();
                let pats = (0..npats).map(|_| parse_pat(&mut t)).collect();
                terms.push(Term::Stub(mid, pats));
            }
            other => panic!("bad term {other}"),
        }
    }
    assert_eq!(t.next(), "E");
    let nev: usize = t.num();
    let mut events = vec![];
    for _ in 0..nev {
        let tok = t.next();
        let (flags, rest) = tok.split_once(':').expect("event");
        let parts: Vec<&str> = rest.split(':').collect();
        let ix = |k: usize| parts[k].parse::<usize>().expect("event number");
        let base = match parts[0] {
            "call" => Base::Call(ix(1), ix(2) as u32, ix(3) as u8),
            "clone" => Base::Clone(ix(1)),
            "drop" => Base::Drop(ix(1)),
            "verify" => Base::Verify(ix(1)),
            "nvid" => Base::Nvid(ix(1)),
            "report" => Base::Report(ix(1)),
            other => panic!("bad event {other}"),
        };
        events.push(Event {
            other: flags.contains('o'),
            unwinding: flags.contains('u'),
            base,
        });
    }
    Case {
        id,
        partial,
        terms,
        events,
    }
}

fn panic_text(payload: Box<dyn std::any::Any + Send>) -> String {
    if let Some(s) = payload.downcast_ref::<String>() {
        s.clone()
    } else if let Some(s) = payload.downcast_ref::<&'static str>() {
        s.to_string()
    } else {
        "<non-string panic payload>".to_string()
    }
}

fn esc(s: &str) -> String {
    s.replace('\n', "\\n")
}

fn obs<R>(r: std::thread::Result<R>, show: impl FnOnce(R) -> String) -> String {
    match r {
        Ok(v) => show(v),
        Err(p) => format!("P:{}", esc(&panic_text(p))),
    }
}

fn do_call(u: &Unimock, m: u32, a: u8) -> String {
    match m {
        0 => u.m0(a).0,
        1 => u.m1(a).0,
        2 => u.m2(a).0,
        3 => u.m3(a).0,
        4 => u.m4(a).0,
        5 => u.m5(a).0,
        6 => <Unimock as G<u8>>::g(u, a).0,
        7 => <Unimock as G<u16>>::g(u, a).0,
        _ => panic!("harness: no such method {m}"),
    }
}

fn show_val(s: String) -> String {
    if s.is_empty() {
        "rdefault".to_string()
    } else {
        s
    }
}

fn run_base(slots: &mut Vec<Option<Unimock>>, unwinding: bool, base: &Base) -> String {
    let alive = |slots: &Vec<Option<Unimock>>, i: usize| i < slots.len() && slots[i].is_some();
    match *base {
        Base::Call(i, m, a) => {
            if !alive(slots, i) {
                return "invalid".into();
            }
            let u = slots[i].as_ref().unwrap();
            obs(catch_unwind(AssertUnwindSafe(|| do_call(u, m, a))), show_val)
        }
        Base::Clone(i) => {
            if !alive(slots, i) {
                return "invalid".into();
            }
            let c = slots[i].as_ref().unwrap().clone();
            slots.push(Some(c));
            "ok".into()
        }
        Base::Drop(i) => {
            if !alive(slots, i) {
                return "invalid".into();
            }
            let u = slots[i].take().unwrap();
            if unwinding {
                obs(
                    catch_unwind(AssertUnwindSafe(move || {
                        let _guard = u;
                        panic!("user");
                    })),
                    |()| "ok".into(),
                )
            } else {
                obs(catch_unwind(AssertUnwindSafe(move || drop(u))), |()| {
                    "ok".into()
                })
            }
        }
        Base::Verify(i) => {
            if !alive(slots, i) {
                return "invalid".into();
            }
            let u = slots[i].take().unwrap();
            obs(catch_unwind(AssertUnwindSafe(move || u.verify())), |()| {
                "ok".into()
            })
        }
        Base::Nvid(i) => {
            if !alive(slots, i) {
                return "invalid".into();
            }
            let u = slots[i].take().unwrap();
            match catch_unwind(AssertUnwindSafe(move || u.no_verify_in_drop())) {
                Ok(u) => {
                    slots[i] = Some(u);
                    "ok".into()
                }
                Err(p) => format!("P:{}", esc(&panic_text(p))),
            }
        }
        Base::Report(i) => {
            if !alive(slots, i) {
                return "invalid".into();
            }
            let u = slots[i].take().unwrap();
            #[cfg(feature = "std-build")]
            {
                use std::process::{ExitCode, Termination};
                obs(
                    catch_unwind(AssertUnwindSafe(move || u.report())),
                    |code: ExitCode| {
                        if format!("{code:?}") == format!("{:?}", ExitCode::SUCCESS) {
                            "exit:SUCCESS".into()
                        } else if format!("{code:?}") == format!("{:?}", ExitCode::FAILURE) {
                            "exit:FAILURE".into()
                        } else {
                            format!("exit:{code:?}")
                        }
                    },
                )
            }
            #[cfg(not(feature = "std-build"))]
            {
                drop(u);
                "unsupported".into()
            }
        }
    }
}

fn build_clause(terms: &[Term]) -> Result<DynClause, String> {
    let mut dc = DynClause::new();
    for t in terms {
        match t {
            Term::Call(mid, opener, pat) => walk::push_call(&mut dc, *mid, *opener, pat)?,
            Term::Stub(mid, pats) => walk::push_stub(&mut dc, *mid, pats)?,
        }
    }
    Ok(dc)
}

fn run_case(case: &Case, out: &mut impl Write) {
    let clause = match build_clause(&case.terms) {
        Ok(c) => c,
        Err(e) => {
            writeln!(out, "illtyped {e}").unwrap();
            return;
        }
    };
    let partial = case.partial;
    let made = catch_unwind(AssertUnwindSafe(move || {
        if partial {
            Unimock::new_partial(clause)
        } else {
            Unimock::new(clause)
        }
    }));
    let u = match made {
        Ok(u) => u,
        Err(p) => {
            writeln!(out, "new:P:{}", esc(&panic_text(p))).unwrap();
            return;
        }
    };
    writeln!(out, "new:ok").unwrap();
    let mut slots: Vec<Option<Unimock>> = vec![Some(u)];
    for ev in &case.events {
        let line = if ev.other {
            let slots_ref = &mut slots;
            std::thread::scope(|s| {
                s.spawn(move || run_base(slots_ref, ev.unwinding, &ev.base))
                    .join()
                    .unwrap_or_else(|p| format!("THREAD-PANIC:{}", esc(&panic_text(p))))
            })
        } else {
            run_base(&mut slots, ev.unwinding, &ev.base)
        };
        writeln!(out, "{line}").unwrap();
    }
    // leftovers: clones first, everything under catch_unwind, not observed
    for i in (0..slots.len()).rev() {
        if let Some(u) = slots[i].take() {
            let _ = catch_unwind(AssertUnwindSafe(move || drop(u.no_verify_in_drop_if_original())));
        }
    }
}

trait Leftover {
    fn no_verify_in_drop_if_original(self) -> Self;
}
impl Leftover for Unimock {
    fn no_verify_in_drop_if_original(self) -> Self {
        // a clone panics in no_verify_in_drop (and is consumed); keep it simple:
        // just let it drop; the original's verification panic is swallowed by the caller
        self
    }
}

fn main() {
    std::panic::set_hook(Box::new(|_| {}));
    let args: Vec<String> = std::env::args().collect();
    let input: Box<dyn BufRead> = if args.len() > 1 {
        Box::new(std::io::BufReader::new(
            std::fs::File::open(&args[1]).expect("open case file"),
        ))
    } else {
        Box::new(std::io::BufReader::new(std::io::stdin()))
    };
    let stdout = std::io::stdout();
    let mut out = std::io::BufWriter::new(stdout.lock());
    for line in input.lines() {
        let line = line.expect("read");
        let line = line.trim();
        if line.is_empty() || line.starts_with('#') {
            continue;
        }
        let case = parse_case(line);
        writeln!(out, "case {}", case.id).unwrap();
        out.flush().unwrap();
        run_case(&case, &mut out);
        writeln!(out, "--").unwrap();
        out.flush().unwrap();
    }
}

//! Turn a run-time op list into a real builder chain.  One generic walker per
//! output type; every step is one real builder method call, dispatched on the
//! type state the chain is in (the type states are those of unimock::build).

use crate::inventory::*;
use crate::{Op, Opener, Pat};
use std::sync::Arc;
use unimock::build::*;
use unimock::output::Owning;
use unimock::private::Matching;
use unimock::property::*;
use unimock::verif::DynClause;
use unimock::*;

const NAMES: [&str; 64] = [
    "(p0)", "(p1)", "(p2)", "(p3)", "(p4)", "(p5)", "(p6)", "(p7)", "(p8)", "(p9)", "(p10)",
    "(p11)", "(p12)", "(p13)", "(p14)", "(p15)", "(p16)", "(p17)", "(p18)", "(p19)", "(p20)",
    "(p21)", "(p22)", "(p23)", "(p24)", "(p25)", "(p26)", "(p27)", "(p28)", "(p29)", "(p30)",
    "(p31)", "(p32)", "(p33)", "(p34)", "(p35)", "(p36)", "(p37)", "(p38)", "(p39)", "(p40)",
    "(p41)", "(p42)", "(p43)", "(p44)", "(p45)", "(p46)", "(p47)", "(p48)", "(p49)", "(p50)",
    "(p51)", "(p52)", "(p53)", "(p54)", "(p55)", "(p56)", "(p57)", "(p58)", "(p59)", "(p60)",
    "(p61)", "(p62)", "(p63)",
];

fn ill(state: &str, op: &Op) -> String {
    format!("{op:?} in {state}")
}

macro_rules! walkers {
    ($modname:ident, $Out:ident, clone = $clone:tt) => {
        walkers!(@gen $modname, $Out, $clone, Owning<$Out>, $Out, $Out, $Out::new, u8, arg_u8);
    };
    // $Kind: the OutputKind; $AnsOut: what an answer function returns (may mention 'u); $RetTy: the value handed to returns();
    // $mk: String -> $RetTy; $In: the (single) input type; $get: &$In -> u8
    (@gen $modname:ident, $Out:ident, $clone:tt, $Kind:ty, $AnsOut:ty, $RetTy:ty, $mk:expr, $In:ty, $get:expr) => {
        pub mod $modname {
            use super::*;

            pub type AnsFn = dyn (for<'u> Fn(&'u Unimock, $In) -> $AnsOut) + Send + Sync;

            pub trait Sig:
                MockFn<OutputKind = $Kind, AnswerFn = AnsFn>
                + for<'i> MockFn<Inputs<'i> = $In>
                + 'static
            {
            }
            impl<F> Sig for F where
                F: MockFn<OutputKind = $Kind, AnswerFn = AnsFn>
                    + for<'i> MockFn<Inputs<'i> = $In>
                    + 'static
            {
            }

            pub fn matcher<F: Sig>(pat: &Pat) -> impl Fn(&mut Matching<F>) {
                let mask = pat.matcher;
                let dbg = pat.dbg;
                move |m: &mut Matching<F>| {
                    if let Some(mask) = mask {
                        // bit 16: user code that panics - the matcher itself, when shown the argument 7
                        m.func(move |a: &$In, reporter| {
                            let a: u8 = $get(a);
                            trace_push(dbg.unwrap_or(999), reporter.enabled());
                            if mask & (1 << 16) != 0 && a == 7 {
                                panic!("user:matcher");
                            }
                            (mask >> a) & 1 == 1
                        });
                    }
                    if let Some(d) = dbg {
                        m.pat_debug(NAMES[d as usize], "case.rs", d);
                    }
                }
            }

            fn answer(f: u32) -> impl (for<'u> Fn(&'u Unimock, $In) -> $AnsOut) + Send + Sync {
                move |_, a| {
                    let a: u8 = $get(&a);
                    if f >= 1000 {
                        panic!("user:ans");
                    }
                    $mk(format!("a{f}({a})"))
                }
            }

            pub enum St<'p, F: Sig, O: Ordering + Copy> {
                DR(DefineResponse<'p, F, O>),
                DMR(DefineMultipleResponses<'p, F, O>),
                QRV(QuantifyReturnValue<'p, F, $RetTy, O>),
                Q(Quantify<'p, F, O>),
                QRE(QuantifiedResponse<'p, F, O, Exact>),
                QRA(QuantifiedResponse<'p, F, O, AtLeast>),
            }

            macro_rules! common_response {
                ($b:expr, $op:expr, $name:expr) => {
                    match $op {
                        Op::RetDefault => Ok(St::Q(default_of($b)?)),
                        Op::Ans(f) => Ok(St::Q($b.answers(Box::leak(Box::new(answer(*f)))))),
                        Op::AnsArc(f) => Ok(St::Q($b.answers_arc(Arc::new(answer(*f))))),
                        Op::Panics(k) => Ok(St::Q($b.panics(format!("boom{k}")))),
                        Op::Unmocked => Ok(St::Q($b.applies_unmocked())),
                        Op::DefaultImpl => Ok(St::Q($b.applies_default_impl())),
                        other => Err(ill($name, other)),
                    }
                };
            }

            // returns_default needs Default; dispatched through a tiny trait so that the
            // non-Default output type reports "ill-typed" instead of failing to compile
            walkers!(@default $Out, $clone);

            /// steps that exist for both orderings
            fn step_common<'p, F: Sig, O: Ordering + Copy>(
                st: St<'p, F, O>,
                op: &Op,
            ) -> Result<Result<St<'p, F, O>, St<'p, F, O>>, String> {
                // Ok(Ok(next)) = handled; Ok(Err(st)) = not a common step
                match st {
                    St::DR(b) => match op {
                        Op::Ret(v) => Ok(Ok(St::QRV(b.returns($mk(format!("r{v}")))))),
                        _ => common_response!(b, op, "DefineResponse").map(Ok),
                    },
                    St::DMR(b) => match op {
                        Op::Ret(v) => walkers!(@dmr_returns $clone, b, v, $mk).map(Ok),
                        _ => common_response!(b, op, "DefineMultipleResponses").map(Ok),
                    },
                    St::QRV(b) => match op {
                        Op::Once => Ok(Ok(St::QRE(b.once()))),
                        Op::NTimes(n) => walkers!(@qrv_n $clone, b, n).map(Ok),
                        _ => Ok(Err(St::QRV(b))),
                    },
                    St::Q(b) => match op {
                        Op::Once => Ok(Ok(St::QRE(b.once()))),
                        Op::NTimes(n) => Ok(Ok(St::QRE(b.n_times(*n)))),
                        _ => Ok(Err(St::Q(b))),
                    },
                    St::QRE(b) => match op {
                        Op::Then => Ok(Ok(St::DMR(b.then()))),
                        other => Err(ill("QuantifiedResponse<Exact>", other)),
                    },
                    St::QRA(_) => Err(ill("QuantifiedResponse<AtLeast>", op)),
                }
            }

            pub fn step_any<'p, F: Sig>(
                st: St<'p, F, InAnyOrder>,
                op: &Op,
            ) -> Result<St<'p, F, InAnyOrder>, String> {
                match step_common(st, op)? {
                    Ok(next) => Ok(next),
                    Err(St::QRV(b)) => match op {
                        Op::AtLeast(n) => walkers!(@qrv_al $clone, b, n),
                        other => Err(ill("QuantifyReturnValue", other)),
                    },
                    Err(St::Q(b)) => match op {
                        Op::AtLeast(n) => Ok(St::QRA(b.at_least_times(*n))),
                        other => Err(ill("Quantify", other)),
                    },
                    Err(_) => unreachable!(),
                }
            }

            pub fn step_ord<'p, F: Sig>(
                st: St<'p, F, InOrder>,
                op: &Op,
            ) -> Result<St<'p, F, InOrder>, String> {
                match step_common(st, op)? {
                    Ok(next) => Ok(next),
                    Err(St::QRV(_)) => Err(ill("QuantifyReturnValue<InOrder>", op)),
                    Err(St::Q(_)) => Err(ill("Quantify<InOrder>", op)),
                    Err(_) => unreachable!(),
                }
            }

            fn finish<F: Sig, O: Ordering + Copy + 'static>(
                dc: &mut DynClause,
                st: St<'static, F, O>,
            ) -> Result<(), String> {
                match st {
                    St::QRV(b) => dc.push(b),
                    St::Q(b) => dc.push(b),
                    St::QRE(b) => dc.push(b),
                    St::QRA(b) => dc.push(b),
                    St::DR(_) => return Err("DefineResponse is not a clause".into()),
                    St::DMR(_) => return Err("DefineMultipleResponses is not a clause".into()),
                }
                Ok(())
            }

            pub fn push_call<F: Sig>(
                dc: &mut DynClause,
                f: F,
                opener: Opener,
                pat: &Pat,
            ) -> Result<(), String> {
                let m = matcher::<F>(pat);
                match opener {
                    Opener::Some => {
                        let mut st = St::DR(f.some_call(&m));
                        for op in &pat.ops {
                            st = step_any(st, op)?;
                        }
                        finish(dc, st)
                    }
                    Opener::Each => {
                        let mut st = St::DMR(f.each_call(&m));
                        for op in &pat.ops {
                            st = step_any(st, op)?;
                        }
                        finish(dc, st)
                    }
                    Opener::Next => {
                        let mut st = St::DR(f.next_call(&m));
                        for op in &pat.ops {
                            st = step_ord(st, op)?;
                        }
                        finish(dc, st)
                    }
                }
            }

            pub fn push_stub<F: Sig>(dc: &mut DynClause, f: F, pats: &[Pat]) -> Result<(), String> {
                let mut error = None;
                let each = f.stub(|each| {
                    for pat in pats {
                        let m = matcher::<F>(pat);
                        let mut st = St::DMR(each.call(&m));
                        for op in &pat.ops {
                            match step_any(st, op) {
                                Ok(next) => st = next,
                                Err(e) => {
                                    error = Some(e);
                                    return;
                                }
                            }
                        }
                        match st {
                            St::DR(_) | St::QRV(_) => {
                                error = Some("stub chain cannot end here".into());
                                return;
                            }
                            _ => {}
                        }
                    }
                });
                match error {
                    Some(e) => Err(e),
                    None => {
                        dc.push(each);
                        Ok(())
                    }
                }
            }
        }
    };

    (@default $Out:ident, true) => {
        fn default_of<'p, F: Sig, O: Ordering + Copy, B: ReturnsDefault<'p, F, O>>(
            b: B,
        ) -> Result<Quantify<'p, F, O>, String> {
            Ok(b.do_returns_default())
        }
        pub trait ReturnsDefault<'p, F: Sig, O: Ordering + Copy> {
            fn do_returns_default(self) -> Quantify<'p, F, O>;
        }
        impl<'p, F: Sig, O: Ordering + Copy> ReturnsDefault<'p, F, O> for DefineResponse<'p, F, O> {
            fn do_returns_default(self) -> Quantify<'p, F, O> {
                self.returns_default()
            }
        }
        impl<'p, F: Sig, O: Ordering + Copy> ReturnsDefault<'p, F, O>
            for DefineMultipleResponses<'p, F, O>
        {
            fn do_returns_default(self) -> Quantify<'p, F, O> {
                self.returns_default()
            }
        }
    };
    (@default $Out:ident, false) => {
        fn default_of<'p, F: Sig, O: Ordering + Copy, B>(_b: B) -> Result<Quantify<'p, F, O>, String> {
            Err("returns_default on a type without Default".into())
        }
    };

    (@dmr_returns true, $b:expr, $v:expr, $mk:expr) => {
        Ok::<_, String>(St::Q($b.returns($mk(format!("r{}", $v)))))
    };
    (@dmr_returns false, $b:expr, $v:expr, $mk:expr) => {{
        let _ = ($b, $v);
        Err::<St<'p, F, O>, String>("DefineMultipleResponses::returns needs Clone".into())
    }};
    (@qrv_n true, $b:expr, $n:expr) => {
        Ok::<_, String>(St::QRE($b.n_times(*$n)))
    };
    (@qrv_n false, $b:expr, $n:expr) => {{
        let _ = ($b, $n);
        Err::<St<'p, F, O>, String>("n_times needs Clone".into())
    }};
    (@qrv_al true, $b:expr, $n:expr) => {
        Ok::<_, String>(St::QRA($b.at_least_times(*$n)))
    };
    (@qrv_al false, $b:expr, $n:expr) => {{
        let _ = ($b, $n);
        Err::<St<'p, F, InAnyOrder>, String>("at_least_times needs Clone".into())
    }};
}

walkers!(val, Val, clone = true);
walkers!(uniq, Uniq, clone = false);
// a composite single-use value: two owned, non-Clone components around a borrowed one
walkers!(@gen triple, Uniq, false, <PMock::mt as MockFn>::OutputKind, (Uniq, &'u str, Uniq), (Uniq, &'static str, Uniq), mk_triple, u8, arg_u8);
// an argument type whose Debug impl counts its invocations
walkers!(@gen dbg, Val, true, Owning<Val>, Val, Val, Val::new, A8, arg_a8);

fn arg_u8(a: &u8) -> u8 {
    *a
}

fn arg_a8(a: &A8) -> u8 {
    a.0
}

fn mk_triple(s: String) -> (Uniq, &'static str, Uniq) {
    (Uniq::new(s.clone()), "lent", Uniq::new(s))
}

pub fn push_call(dc: &mut DynClause, mid: u32, opener: Opener, pat: &Pat) -> Result<(), String> {
    match mid {
        0 => val::push_call(dc, TMock::m0, opener, pat),
        1 => val::push_call(dc, TMock::m1, opener, pat),
        2 => val::push_call(dc, TMock::m2, opener, pat),
        3 => val::push_call(dc, TMock::m3, opener, pat),
        4 => uniq::push_call(dc, TMock::m4, opener, pat),
        5 => uniq::push_call(dc, TMock::m5, opener, pat),
        6 => val::push_call(dc, GMock::g.with_types::<u8>(), opener, pat),
        7 => val::push_call(dc, GMock::g.with_types::<u16>(), opener, pat),
        9 => triple::push_call(dc, PMock::mt, opener, pat),
        40 => dbg::push_call(dc, DBMock::db, opener, pat),
        38 => val::push_call(dc, R1Mock::get.with_types::<u8>(), opener, pat),
        39 => val::push_call(dc, R2Mock::get.with_types::<u8>(), opener, pat),
        _ => Err(format!("no such method {mid}")),
    }
}

pub fn push_stub(dc: &mut DynClause, mid: u32, pats: &[Pat]) -> Result<(), String> {
    match mid {
        0 => val::push_stub(dc, TMock::m0, pats),
        1 => val::push_stub(dc, TMock::m1, pats),
        2 => val::push_stub(dc, TMock::m2, pats),
        3 => val::push_stub(dc, TMock::m3, pats),
        4 => uniq::push_stub(dc, TMock::m4, pats),
        5 => uniq::push_stub(dc, TMock::m5, pats),
        6 => val::push_stub(dc, GMock::g.with_types::<u8>(), pats),
        7 => val::push_stub(dc, GMock::g.with_types::<u16>(), pats),
        9 => triple::push_stub(dc, PMock::mt, pats),
        40 => dbg::push_stub(dc, DBMock::db, pats),
        38 => val::push_stub(dc, R1Mock::get.with_types::<u8>(), pats),
        39 => val::push_stub(dc, R2Mock::get.with_types::<u8>(), pats),
        _ => Err(format!("no such method {mid}")),
    }
}

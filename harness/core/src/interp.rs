//! Event interpreter shared by the harness binaries: executes life-cycle and
//! call events against real Unimock instances and prints one observation per event.

use crate::inventory::*;
use std::io::Write;
use std::panic::{catch_unwind, AssertUnwindSafe};
use unimock::*;

#[derive(Clone, Debug)]
pub enum Base {
    Call(usize, u32, u8),
    /// a call observed together with the matcher functions it consulted
    CallM(usize, u32, u8),
    Clone(usize),
    /// `slots[i].clone_from(&slots[j])`
    CloneFrom(usize, usize),
    Drop(usize),
    Verify(usize),
    Nvid(usize),
    Report(usize),
    Lend(usize),
    /// lend a value that owns a clone of the mock and calls m(a) on it from its Drop (swallowing a panic)
    LendCall(usize, u32, u8),
    Count(usize),
    CallOwn(usize, u32, u8),
    Arm(u32),
    /// observe the number of live instrumented values (constructed - dropped)
    Live,
    /// build another, independent mock from the same clauses (its original gets the next slot)
    Twin,
}

#[derive(Clone, Debug)]
pub struct Event {
    pub other: bool,
    pub unwinding: bool,
    pub base: Base,
}

pub fn panic_text(payload: Box<dyn std::any::Any + Send>) -> String {
    if let Some(s) = payload.downcast_ref::<String>() {
        s.clone()
    } else if let Some(s) = payload.downcast_ref::<&'static str>() {
        s.to_string()
    } else {
        "<non-string panic payload>".to_string()
    }
}

pub fn esc(s: &str) -> String {
    s.replace('\n', "\\n")
}

fn obs<R>(r: std::thread::Result<R>, show: impl FnOnce(R) -> String) -> String {
    match r {
        Ok(v) => show(v),
        Err(p) => format!("P:{}", esc(&panic_text(p))),
    }
}

fn do_call(u: &Unimock, m: u32, a: u8) -> String {
    match m {
        0 => u.m0(a).take(),
        1 => u.m1(a).take(),
        2 => u.m2(a).take(),
        3 => u.m3(a).take(),
        4 => u.m4(a).take(),
        5 => u.m5(a).take(),
        6 => <Unimock as G<u8>>::g(u, a).take(),
        7 => <Unimock as G<u16>>::g(u, a).take(),
        9 => take_triple(u.mt(a)),
        40 => u.db(A8(a)).take(),
        38 => <Unimock as R1>::get::<u8>(u, a).take(),
        39 => <Unimock as R2>::get::<u8>(u, a).take(),
        #[cfg(feature = "dtrait")]
        10 => u.r0(a).take(),
        #[cfg(feature = "dtrait")]
        11 => u.r1(a).take(),
        #[cfg(feature = "dtrait")]
        12 => u.u2(a, a + 1).take(),
        #[cfg(feature = "dtrait")]
        13 => u.u3(a, a + 1).take(),
        #[cfg(feature = "dtrait")]
        14 => u.p_ref(a).take(),
        #[cfg(feature = "dtrait")]
        36 => u.hreq(a).take(),
        #[cfg(feature = "dtrait")]
        37 => u.hprov(a).take(),
        _ => panic!("harness: no such method {m}"),
    }
}

#[cfg(not(feature = "dtrait"))]
fn call_any(slot: &mut Option<Unimock>, m: u32, a: u8) -> String {
    let u = slot.as_ref().unwrap();
    obs(catch_unwind(AssertUnwindSafe(|| do_call(u, m, a))), show_val)
}

/// calls through every receiver kind; by-value / sole-owner Rc and Arc receivers consume the instance
#[cfg(feature = "dtrait")]
fn call_any(slot: &mut Option<Unimock>, m: u32, a: u8) -> String {
    use std::pin::Pin;
    use std::rc::Rc;
    use std::sync::Arc;
    match m {
        15 | 19 | 20 => {
            let u = slot.as_mut().unwrap();
            obs(
                catch_unwind(AssertUnwindSafe(|| match m {
                    15 => u.p_mut(a).take(),
                    19 => Pin::new(u).p_pin(a).take(),
                    _ => u.m_mut(a).take(),
                })),
                show_val,
            )
        }
        16 | 33 | 34 => {
            let u = slot.take().unwrap();
            obs(
                catch_unwind(AssertUnwindSafe(move || match m {
                    16 => u.p_val(a).take(),
                    33 => u.r_val(a).take(),
                    _ => u.p_val2(a).take(),
                })),
                show_val,
            )
        }
        17 | 23 | 24 | 35 => {
            let rc = Rc::new(slot.take().unwrap());
            obs(
                catch_unwind(AssertUnwindSafe(move || match m {
                    17 => rc.p_rc(a).take(),
                    23 => rc.r_rc(a).take(),
                    35 => rc.p_rc3(a).take(),
                    _ => rc.p_rc2(a).take(),
                })),
                show_val,
            )
        }
        18 | 29 | 30 => {
            let rc = Arc::new(slot.take().unwrap());
            obs(
                catch_unwind(AssertUnwindSafe(move || match m {
                    18 => rc.p_arc(a).take(),
                    29 => rc.r_arc(a).take(),
                    _ => rc.p_arc2(a).take(),
                })),
                show_val,
            )
        }
        27 => {
            // the only strong owner, but a Weak pointer is outstanding during the call
            let rc = Rc::new(slot.take().unwrap());
            let weak = Rc::downgrade(&rc);
            let r = obs(catch_unwind(AssertUnwindSafe(move || rc.p_rc(a).take())), show_val);
            drop(weak);
            r
        }
        28 => {
            let rc = Arc::new(slot.take().unwrap());
            let weak = Arc::downgrade(&rc);
            let r = obs(catch_unwind(AssertUnwindSafe(move || rc.p_arc(a).take())), show_val);
            drop(weak);
            r
        }
        21 | 25 | 26 => {
            // another Rc to the same instance is kept alive during the call: the instance survives
            let rc = Rc::new(slot.take().unwrap());
            let keep = rc.clone();
            let r = obs(
                catch_unwind(AssertUnwindSafe(move || match m {
                    21 => rc.p_rc(a).take(),
                    25 => rc.r_rc(a).take(),
                    _ => rc.p_rc2(a).take(),
                })),
                show_val,
            );
            *slot = Rc::try_unwrap(keep).ok();
            r
        }
        22 | 31 | 32 => {
            let rc = Arc::new(slot.take().unwrap());
            let keep = rc.clone();
            let r = obs(
                catch_unwind(AssertUnwindSafe(move || match m {
                    22 => rc.p_arc(a).take(),
                    31 => rc.r_arc(a).take(),
                    _ => rc.p_arc2(a).take(),
                })),
                show_val,
            );
            *slot = Arc::try_unwrap(keep).ok();
            r
        }
        _ => {
            let u = slot.as_ref().unwrap();
            obs(catch_unwind(AssertUnwindSafe(|| do_call(u, m, a))), show_val)
        }
    }
}

fn show_val(s: String) -> String {
    if s.is_empty() {
        "rdefault".to_string()
    } else {
        s
    }
}

/// slots whose value chain holds a `Caller`
static CALLERS: std::sync::Mutex<Vec<usize>> = std::sync::Mutex::new(Vec::new());

fn has_callers(i: usize) -> bool {
    CALLERS.lock().unwrap().contains(&i)
}

/// a lent value that calls the mock (through the clone it owns) when the value chain drops it
struct Caller {
    u: Option<Unimock>,
    m: u32,
    a: u8,
}

impl Drop for Caller {
    fn drop(&mut self) {
        let u = self.u.take().unwrap();
        let (m, a) = (self.m, self.a);
        let _ = catch_unwind(AssertUnwindSafe(|| {
            let _ = do_call(&u, m, a);
        }));
        let _ = catch_unwind(AssertUnwindSafe(move || drop(u)));
    }
}

pub fn run_base(slots: &mut Vec<Option<Unimock>>, unwinding: bool, base: &Base) -> String {
    // case-language rule (Model/Run.v [releasing]): an instance that lent a Caller may only be destroyed by an event that
    // STARTS with the teardown/drop (drop, verify, clone_from, refused no_verify_in_drop), not by one that runs other code first
    let blocked = match *base {
        Base::CallOwn(i, _, _) | Base::Report(i) => has_callers(i),
        Base::Call(i, m, _) | Base::CallM(i, m, _) => (10..38).contains(&m) && has_callers(i),   // 38.. are plain `&self` methods of Layer A
        _ => false,
    };
    if blocked {
        return "invalid".into();
    }
    let line = run_base_inner(slots, unwinding, base);
    let mut callers = CALLERS.lock().unwrap();
    callers.retain(|&i| i < slots.len() && slots[i].is_some());
    if let Base::CloneFrom(i, j) = *base {
        let _ = j;
        if line != "invalid" {
            callers.retain(|&k| k != i);
        }
    }
    line
}

fn run_base_inner(slots: &mut Vec<Option<Unimock>>, unwinding: bool, base: &Base) -> String {
    if let Base::Twin = base {
        unreachable!("twin is handled by run_events");
    }
    let alive = |slots: &Vec<Option<Unimock>>, i: usize| i < slots.len() && slots[i].is_some();
    match *base {
        Base::Twin => unreachable!(),
        Base::Live => {
            use std::sync::atomic::Ordering::SeqCst;
            format!("live:{}:{}", LIVE_VAL.load(SeqCst), LIVE_UNIQ.load(SeqCst))
        }
        Base::Arm(n) => {
            ARMED_GLOBAL.store(n, std::sync::atomic::Ordering::SeqCst);
            "ok".into()
        }
        Base::Lend(i) => {
            if !alive(slots, i) {
                return "invalid".into();
            }
            let u = slots[i].as_ref().unwrap();
            let _lent: &Unimock = u.make_ref(u.clone());
            "ok".into()
        }
        Base::LendCall(i, m, a) => {
            if !alive(slots, i) {
                return "invalid".into();
            }
            let u = slots[i].as_ref().unwrap();
            let _lent: &Caller = u.make_ref(Caller { u: Some(u.clone()), m, a });
            let mut callers = CALLERS.lock().unwrap();
            if !callers.contains(&i) {
                callers.push(i);
            }
            "ok".into()
        }
        Base::Count(i) => {
            if !alive(slots, i) {
                return "invalid".into();
            }
            format!("{}", unimock::verif::shared_strong_count(slots[i].as_ref().unwrap()))
        }
        Base::CallOwn(i, m, a) => {
            if !alive(slots, i) {
                return "invalid".into();
            }
            let u = slots[i].take().unwrap();
            // the instance lives in the scope of the call: it is dropped when the scope is
            // left, normally or by unwinding (a second panic there aborts the process)
            let mut result: Option<String> = None;
            let r = catch_unwind(AssertUnwindSafe(|| {
                let owned = u;
                result = Some(show_val(do_call(&owned, m, a)));
            }));
            match (r, result) {
                (Ok(()), Some(v)) => format!("{v}|ok"),
                (Err(p), Some(v)) => format!("{v}|P:{}", esc(&panic_text(p))),
                (Err(p), None) => format!("P:{}", esc(&panic_text(p))),
                (Ok(()), None) => unreachable!(),
            }
        }
        Base::Call(i, m, a) => {
            if !alive(slots, i) {
                return "invalid".into();
            }
            if unwinding {
                // the call is made by cleanup code (a guard's Drop) while the thread unwinds from an unrelated panic; a panic
                // of the call is swallowed there (it must not leave the destructor)
                struct Cleanup<'a>(&'a mut Option<Unimock>, u32, u8, &'a mut Option<String>);
                impl Drop for Cleanup<'_> {
                    fn drop(&mut self) {
                        assert!(std::thread::panicking());
                        *self.3 = Some(call_any(self.0, self.1, self.2));
                    }
                }
                let mut res = None;
                let _ = catch_unwind(AssertUnwindSafe(|| {
                    let _cleanup = Cleanup(&mut slots[i], m, a, &mut res);
                    panic!("user");
                }));
                return res.expect("cleanup ran");
            }
            call_any(&mut slots[i], m, a)
        }
        Base::CallM(i, m, a) => {
            if !alive(slots, i) {
                return "invalid".into();
            }
            let _ = trace_take();
            let dbg_before = DEBUG_RUNS.load(std::sync::atomic::Ordering::SeqCst);
            let r = call_any(&mut slots[i], m, a);
            let trace = trace_take();
            if r == "P:user:matcher" || r == "P:user:debug" {
                return r;
            }
            let items: Vec<String> = trace.iter().map(|(d, diag)| format!("{d}{}", if *diag { "d" } else { "" })).collect();
            if m == 40 {
                // the argument's Debug impl is user code: how often it ran during this call
                return format!("{r} M[{}] D{}", items.join(","), DEBUG_RUNS.load(std::sync::atomic::Ordering::SeqCst) - dbg_before);
            }
            format!("{r} M[{}]", items.join(","))
        }
        Base::Clone(i) => {
            if !alive(slots, i) {
                return "invalid".into();
            }
            let c = slots[i].as_ref().unwrap().clone();
            slots.push(Some(c));
            "ok".into()
        }
        Base::CloneFrom(i, j) => {
            if !alive(slots, i) || !alive(slots, j) || i == j {
                return "invalid".into();
            }
            // the target is overwritten in place: its old value is dropped (torn down) by the assignment inside clone_from
            let mut target = slots[i].take().unwrap();
            let r = {
                let source = slots[j].as_ref().unwrap();
                obs(catch_unwind(AssertUnwindSafe(|| target.clone_from(source))), |()| "ok".into())
            };
            slots[i] = Some(target);
            r
        }
        Base::Drop(i) => {
            if !alive(slots, i) {
                return "invalid".into();
            }
            let u = slots[i].take().unwrap();
            if unwinding {
                obs(
                    catch_unwind(AssertUnwindSafe(move || {
                        let _guard = u;
                        panic!("user");
                    })),
                    |()| "ok".into(),
                )
            } else {
                obs(catch_unwind(AssertUnwindSafe(move || drop(u))), |()| {
                    "ok".into()
                })
            }
        }
        Base::Verify(i) => {
            if !alive(slots, i) {
                return "invalid".into();
            }
            let u = slots[i].take().unwrap();
            if unwinding {
                // verify() called from a scope guard while the thread unwinds (fixture pattern)
                struct Guard(Option<Unimock>);
                impl Drop for Guard {
                    fn drop(&mut self) {
                        self.0.take().unwrap().verify();
                    }
                }
                obs(
                    catch_unwind(AssertUnwindSafe(move || {
                        let _guard = Guard(Some(u));
                        panic!("user");
                    })),
                    |()| "ok".into(),
                )
            } else {
                obs(catch_unwind(AssertUnwindSafe(move || u.verify())), |()| {
                    "ok".into()
                })
            }
        }
        Base::Nvid(i) => {
            if !alive(slots, i) {
                return "invalid".into();
            }
            let u = slots[i].take().unwrap();
            match catch_unwind(AssertUnwindSafe(move || u.no_verify_in_drop())) {
                Ok(u) => {
                    slots[i] = Some(u);
                    "ok".into()
                }
                Err(p) => format!("P:{}", esc(&panic_text(p))),
            }
        }
        Base::Report(i) => {
            if !alive(slots, i) {
                return "invalid".into();
            }
            let u = slots[i].take().unwrap();
            #[cfg(any(feature = "std-build", feature = "plain-build"))]
            {
                use std::process::{ExitCode, Termination};
                obs(
                    catch_unwind(AssertUnwindSafe(move || u.report())),
                    |code: ExitCode| {
                        if format!("{code:?}") == format!("{:?}", ExitCode::SUCCESS) {
                            "exit:SUCCESS".into()
                        } else if format!("{code:?}") == format!("{:?}", ExitCode::FAILURE) {
                            "exit:FAILURE".into()
                        } else {
                            // a configured exit code: ExitCode's Debug is the only way to look inside
                            let digits: String = format!("{code:?}").chars().filter(|c| c.is_ascii_digit()).collect();
                            format!("exit:r{digits}")
                        }
                    },
                )
            }
            #[cfg(not(any(feature = "std-build", feature = "plain-build")))]
            {
                drop(u);
                "unsupported".into()
            }
        }
    }
}


pub fn parse_event(tok: &str) -> Event {
    let (flags, rest) = tok.split_once(':').expect("event");
    let parts: Vec<&str> = rest.split(':').collect();
    let ix = |k: usize| parts[k].parse::<usize>().expect("event number");
    let base = match parts[0] {
        "call" => Base::Call(ix(1), ix(2) as u32, ix(3) as u8),
        "callm" => Base::CallM(ix(1), ix(2) as u32, ix(3) as u8),
        "clone" => Base::Clone(ix(1)),
        "clonefrom" => Base::CloneFrom(ix(1), ix(2)),
        "drop" => Base::Drop(ix(1)),
        "verify" => Base::Verify(ix(1)),
        "nvid" => Base::Nvid(ix(1)),
        "report" => Base::Report(ix(1)),
        "twin" => Base::Twin,
        "lend" => Base::Lend(ix(1)),
        "lendcall" => Base::LendCall(ix(1), ix(2) as u32, ix(3) as u8),
        "count" => Base::Count(ix(1)),
        "callown" => Base::CallOwn(ix(1), ix(2) as u32, ix(3) as u8),
        "arm" => Base::Arm(ix(1) as u32),
        "live" => Base::Live,
        other => panic!("bad event {other}"),
    };
    Event {
        other: flags.contains('o'),
        unwinding: flags.contains('u'),
        base,
    }
}

/// Construct the mock (under catch_unwind) and run the events on it.
/// set by the case parser (`strictU` / `partialU`): the mock of the next case is constructed by cleanup code (a guard's
/// Drop) that runs WHILE THE THREAD UNWINDS from an unrelated panic
pub static NEW_UNWINDING: std::sync::atomic::AtomicBool = std::sync::atomic::AtomicBool::new(false);

pub fn fallback_token(tok: &str) -> bool {
    NEW_UNWINDING.store(tok.ends_with('U'), std::sync::atomic::Ordering::SeqCst);
    match tok.trim_end_matches('U') {
        "strict" => false,
        "partial" => true,
        other => panic!("bad fallback {other}"),
    }
}

pub fn run_events(mut make: impl FnMut() -> Unimock, events: &[Event], out: &mut impl Write) {
    ARMED_GLOBAL.store(0, std::sync::atomic::Ordering::SeqCst);
    CALLERS.lock().unwrap().clear();
    let made = if NEW_UNWINDING.swap(false, std::sync::atomic::Ordering::SeqCst) {
        struct Cleanup<'a, F: FnMut() -> Unimock>(&'a mut Option<std::thread::Result<Unimock>>, &'a mut F);
        impl<F: FnMut() -> Unimock> Drop for Cleanup<'_, F> {
            fn drop(&mut self) {
                assert!(std::thread::panicking());
                *self.0 = Some(catch_unwind(AssertUnwindSafe(&mut *self.1)));
            }
        }
        let mut res = None;
        let _ = catch_unwind(AssertUnwindSafe(|| {
            let _cleanup = Cleanup(&mut res, &mut make);
            panic!("user");
        }));
        res.expect("cleanup ran")
    } else {
        catch_unwind(AssertUnwindSafe(&mut make))
    };
    let u = match made {
        Ok(u) => u,
        Err(p) => {
            writeln!(out, "new:P:{}", esc(&panic_text(p))).unwrap();
            return;
        }
    };
    writeln!(out, "new:ok").unwrap();
    let mut slots: Vec<Option<Unimock>> = vec![Some(u)];
    for ev in events {
        if let Base::Twin = ev.base {
            match catch_unwind(AssertUnwindSafe(&mut make)) {
                Ok(u) => {
                    slots.push(Some(u));
                    writeln!(out, "ok").unwrap();
                }
                Err(p) => writeln!(out, "P:{}", esc(&panic_text(p))).unwrap(),
            }
            continue;
        }
        let line = if ev.other {
            let slots_ref = &mut slots;
            std::thread::scope(|s| {
                s.spawn(move || run_base(slots_ref, ev.unwinding, &ev.base))
                    .join()
                    .unwrap_or_else(|p| format!("THREAD-PANIC:{}", esc(&panic_text(p))))
            })
        } else {
            run_base(&mut slots, ev.unwinding, &ev.base)
        };
        writeln!(out, "{line}").unwrap();
    }
    // leftovers: clones first, everything under catch_unwind, not observed
    for i in (0..slots.len()).rev() {
        if let Some(u) = slots[i].take() {
            let _ = catch_unwind(AssertUnwindSafe(move || drop(u)));
        }
    }
}

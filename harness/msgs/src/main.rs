//! Runs generated programs (gen.rs, written by /verif/vlib/props/C19.py on every run):
//! generated traits mocked with the real `#[unimock]`, generated `matching!` invocations at
//! known lines, generated calls.  Prints the text of the first panic of each case (hex).
//! Input lines: `case <id> <k>`.

#[allow(warnings, clippy::all)]
mod gen;

use std::io::{BufRead, Write};
use std::panic::{catch_unwind, AssertUnwindSafe};

fn main() {
    std::panic::set_hook(Box::new(|_| {}));
    let args: Vec<String> = std::env::args().collect();
    let input: Box<dyn BufRead> = Box::new(std::io::BufReader::new(
        std::fs::File::open(&args[1]).expect("open case file"),
    ));
    let stdout = std::io::stdout();
    let mut out = std::io::BufWriter::new(stdout.lock());
    for line in input.lines() {
        let line = line.expect("read");
        let mut t = line.split_whitespace();
        if t.next() != Some("case") {
            continue;
        }
        let id = t.next().unwrap().to_string();
        let k: usize = t.next().unwrap().parse().unwrap();
        writeln!(out, "case {id}").unwrap();
        match catch_unwind(AssertUnwindSafe(|| gen::run_case(k))) {
            Ok(()) => writeln!(out, "OK").unwrap(),
            Err(e) => {
                let msg = if let Some(s) = e.downcast_ref::<String>() {
                    s.clone()
                } else if let Some(s) = e.downcast_ref::<&str>() {
                    s.to_string()
                } else {
                    "<non-string panic payload>".to_string()
                };
                let hex: String = msg.bytes().map(|b| format!("{b:02x}")).collect();
                writeln!(out, "PANIC {hex}").unwrap();
            }
        }
        writeln!(out, "--").unwrap();
        out.flush().unwrap();
    }
}

//! C05 harness: traits generated from the signature-shape grammar (gen.rs, written by
//! /verif/vlib/props/C05.py on every run) are compiled with the REAL #[unimock] macro; the
//! driver of each method records what the matcher closure saw, what the answer function
//! received, what the caller got back, the caller's variables behind &mut parameters and,
//! for async flavours, the evaluation counters before the first poll / after the await /
//! after dropping a future unpolled.  Input lines: `case <id> <k>`.
#![allow(dead_code)]

mod support;
#[allow(unused, non_snake_case, non_camel_case_types, clippy::all)]
mod gen;

use std::io::{BufRead, Write};

fn main() {
    std::panic::set_hook(Box::new(|_| {}));
    let args: Vec<String> = std::env::args().collect();
    let input: Box<dyn BufRead> = Box::new(std::io::BufReader::new(
        std::fs::File::open(&args[1]).expect("open case file"),
    ));
    let stdout = std::io::stdout();
    let mut out = std::io::BufWriter::new(stdout.lock());
    for line in input.lines() {
        let line = line.expect("read");
        let mut t = line.split_whitespace();
        if t.next() != Some("case") {
            continue;
        }
        let id = t.next().unwrap().to_string();
        let k: usize = t.next().unwrap().parse().unwrap();
        writeln!(out, "case {id}").unwrap();
        support::reset();
        let res = std::panic::catch_unwind(std::panic::AssertUnwindSafe(move || gen::run(k)));
        for l in support::take() {
            writeln!(out, "{l}").unwrap();
        }
        if let Err(e) = res {
            let msg = e
                .downcast_ref::<String>()
                .cloned()
                .or_else(|| e.downcast_ref::<&str>().map(|s| s.to_string()))
                .unwrap_or_default();
            writeln!(out, "PANIC {}", msg.lines().next().unwrap_or("")).unwrap();
        }
        writeln!(out, "--").unwrap();
        out.flush().unwrap();
    }
}

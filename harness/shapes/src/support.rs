//! Value universe of the generated programs: every argument carries a distinct id.
use std::sync::Mutex;

struct State {
    lines: Vec<String>,
    matched: u32,
    answered: u32,
    expect_addr: usize,
}

static STATE: Mutex<State> = Mutex::new(State { lines: Vec::new(), matched: 0, answered: 0, expect_addr: 0 });

fn st() -> std::sync::MutexGuard<'static, State> {
    STATE.lock().unwrap_or_else(|e| e.into_inner())
}

pub fn reset() {
    let mut s = st();
    s.lines.clear();
    s.matched = 0;
    s.answered = 0;
    s.expect_addr = 0;
}
pub fn push(line: String) {
    st().lines.push(line);
}
pub fn take() -> Vec<String> {
    std::mem::take(&mut st().lines)
}
/// the matcher closure ran and saw these
pub fn matched(seen: Vec<String>) {
    let mut s = st();
    s.matched += 1;
    let mut l = String::from("M");
    for x in seen { l.push(' '); l.push_str(&x); }
    s.lines.push(l);
}
/// the answer function ran with this receiver and these arguments
pub fn answered(addr: usize, got: Vec<String>) {
    let mut s = st();
    s.answered += 1;
    let who = if addr == 0 && s.expect_addr == 0 { "moved" } else if addr == s.expect_addr { "same" } else { "OTHER" };
    let mut l = format!("A self={who}");
    for x in got { l.push(' '); l.push_str(&x); }
    s.lines.push(l);
}
/// the registered real function number `fid` ran with this mock argument (None: `self` is not among the listed
/// expressions) and these values
pub fn unmocked(fid: u32, addr: Option<usize>, got: Vec<String>) {
    let mut s = st();
    s.answered += 1;
    let who = match addr {
        None => "none",
        Some(a) => if a == 0 && s.expect_addr == 0 { "moved" } else if a == s.expect_addr { "same" } else { "OTHER" },
    };
    let mut l = format!("U f={fid} self={who}");
    for x in got { l.push(' '); l.push_str(&x); }
    s.lines.push(l);
}
/// a call that must panic NAMING the method (`Trait::method`): prints PANIC, or what went wrong
pub fn named_panic(name: &str, r: Result<(), Box<dyn std::any::Any + Send>>) {
    let line = match r {
        Ok(()) => "NO-PANIC".to_string(),
        Err(p) => {
            let msg = p.downcast_ref::<String>().cloned().or_else(|| p.downcast_ref::<&str>().map(|s| s.to_string())).unwrap_or_default();
            if msg.contains(name) { "PANIC".to_string() } else { format!("PANIC-WITHOUT-NAME {msg}") }
        }
    };
    st().lines.push(line);
}
/// the caller announces where its mock instance lives (0: passed by value)
pub fn expect(addr: usize) {
    st().expect_addr = addr;
}
/// counters sampled by the caller at a named point
pub fn sample(point: &str) {
    let mut s = st();
    let l = format!("C {} m={} a={}", point, s.matched, s.answered);
    s.lines.push(l);
}

/// is this instance the original or a clone?  (`no_verify_in_drop` refuses clones)
pub fn originality(u: unimock::Unimock) -> &'static str {
    match std::panic::catch_unwind(std::panic::AssertUnwindSafe(move || drop(u.no_verify_in_drop()))) {
        Ok(()) => "original",
        Err(_) => "clone",
    }
}

/// where the mock instance behind a receiver value lives
pub trait Addr {
    fn addr(&self) -> usize;
}
pub fn addr_of<A: Addr>(a: &A) -> usize { a.addr() }
impl Addr for unimock::Unimock { fn addr(&self) -> usize { 0 } }
impl Addr for &unimock::Unimock { fn addr(&self) -> usize { *self as *const unimock::Unimock as usize } }
impl Addr for &mut unimock::Unimock { fn addr(&self) -> usize { &**self as *const unimock::Unimock as usize } }
impl Addr for std::rc::Rc<unimock::Unimock> { fn addr(&self) -> usize { std::rc::Rc::as_ptr(self) as usize } }
impl Addr for std::sync::Arc<unimock::Unimock> { fn addr(&self) -> usize { std::sync::Arc::as_ptr(self) as usize } }
impl Addr for Box<unimock::Unimock> { fn addr(&self) -> usize { &**self as *const unimock::Unimock as usize } }

/// non-Copy owned token
#[derive(Debug, PartialEq, Eq)]
pub struct Tok(pub u32);

/// a type with a lifetime parameter: `&mut Lt<'_>` parameters are the macro's `Impossible` class
pub struct Lt<'a>(pub u32, pub core::marker::PhantomData<&'a mut ()>);
pub fn lt<'a>(id: u32) -> Lt<'a> {
    Lt(id, core::marker::PhantomData)
}

pub trait Show {
    fn id(&self) -> u32;
    fn show(&self) -> String { self.id().to_string() }
    /// a write through a unique borrow: the id grows by 1000
    fn bump(&mut self) {}
}
impl Show for u32 {
    fn id(&self) -> u32 { *self }
    fn bump(&mut self) { *self += 1000 }
}
impl Show for () {
    fn id(&self) -> u32 { 0 }
    fn show(&self) -> String { "unit".into() }
}
impl Show for Tok {
    fn id(&self) -> u32 { self.0 }
    fn bump(&mut self) { self.0 += 1000 }
}
impl Show for String {
    fn id(&self) -> u32 { self.parse().unwrap() }
}
impl Show for str {
    fn id(&self) -> u32 { self.parse().unwrap() }
}
impl Show for [u32] {
    fn id(&self) -> u32 { self[0] }
    fn show(&self) -> String { self.iter().map(|x| x.to_string()).collect::<Vec<_>>().join("+") }
}
impl<'a> Show for Lt<'a> {
    fn id(&self) -> u32 { self.0 }
    fn bump(&mut self) { self.0 += 1000 }
}
impl Show for unimock::Impossible {
    fn id(&self) -> u32 { 0 }
    fn show(&self) -> String { "!".into() }
}
impl<T: Show> Show for Option<T> {
    fn id(&self) -> u32 { self.as_ref().map(|x| x.id()).unwrap_or(0) }
    fn show(&self) -> String { match self { Some(x) => format!("some{}", x.show()), None => "none".into() } }
}
impl<T: Show + ?Sized> Show for &T {
    fn id(&self) -> u32 { (**self).id() }
    fn show(&self) -> String { (**self).show() }
}
impl<T: Show + ?Sized> Show for &mut T {
    fn id(&self) -> u32 { (**self).id() }
    fn show(&self) -> String { (**self).show() }
    fn bump(&mut self) { (**self).bump() }
}

/// hand-rolled executor: polls with a no-op waker until Ready (bounded)
pub fn block_on<F: core::future::Future>(fut: F) -> F::Output {
    use core::task::{Context, Poll, RawWaker, RawWakerVTable, Waker};
    fn noop(_: *const ()) {}
    fn clone(_: *const ()) -> RawWaker { RawWaker::new(core::ptr::null(), &VT) }
    static VT: RawWakerVTable = RawWakerVTable::new(clone, noop, noop, noop);
    let waker = unsafe { Waker::from_raw(RawWaker::new(core::ptr::null(), &VT)) };
    let mut cx = Context::from_waker(&waker);
    let mut fut = Box::pin(fut);
    for _ in 0..1000 {
        if let Poll::Ready(v) = fut.as_mut().poll(&mut cx) {
            return v;
        }
    }
    panic!("future still pending after 1000 polls");
}

//! C17 harness: traits with `#[unimock]` whose methods return types from the
//! composite-return grammar (generated into gen.rs by vlib/props/C17.py on every
//! run), each configured with `returns(v)` through the single-use and the
//! multi-use paths and requested three times.
//! Input lines: `case <id> <type-index> <value tokens...>` (or `... KIND`).
//! Output per case: `case <id>`, one line per (path, request), `--`.

mod obs;
#[allow(unused_imports, non_snake_case, non_camel_case_types, dead_code, clippy::all)]
mod gen;

use std::io::{BufRead, Write};

/// Request the mocked method `$n` times on `$u`; one observation line per request:
/// `<tag><i> <value text> #<number of references> <first|same|moved>` or `<tag><i> P <class>`.
#[macro_export]
macro_rules! request {
    ($out:expr, $tag:expr, $n:expr, $u:expr, $tr:path $(, $extra:expr)*) => {{
        let mut first: Option<Vec<usize>> = None;
        for i in 1..=$n {
            let r = std::panic::catch_unwind(std::panic::AssertUnwindSafe(|| {
                let v = <unimock::Unimock as $tr>::f(&$u $(, $extra)*);
                $crate::obs::see(&v)
            }));
            match r {
                Ok(seen) => {
                    let st = match &first {
                        None => "first",
                        Some(a) if *a == seen.addrs => "same",
                        Some(_) => "moved",
                    };
                    $out.push(format!("{}{} {} #{} {}", $tag, i, seen.text, seen.addrs.len(), st));
                    if first.is_none() {
                        first = Some(seen.addrs);
                    }
                }
                Err(e) => {
                    let msg = e
                        .downcast_ref::<String>()
                        .cloned()
                        .or_else(|| e.downcast_ref::<&str>().map(|s| s.to_string()))
                        .unwrap_or_default();
                    let class = if msg.contains("more than once") { "once" } else { "other" };
                    $out.push(format!("{}{} P {}", $tag, i, class));
                }
            }
        }
        // the mock verifies in drop; its verdict is not part of this property
        let _ = std::panic::catch_unwind(std::panic::AssertUnwindSafe(move || drop($u)));
    }};
}

fn main() {
    std::panic::set_hook(Box::new(|_| {}));
    let args: Vec<String> = std::env::args().collect();
    let input = std::io::BufReader::new(std::fs::File::open(&args[1]).expect("open case file"));
    let stdout = std::io::stdout();
    let mut out = std::io::BufWriter::new(stdout.lock());
    for line in input.lines() {
        let line = line.expect("read");
        let toks: Vec<String> = line.split_whitespace().map(|s| s.to_string()).collect();
        if toks.first().map(|s| s.as_str()) != Some("case") {
            continue;
        }
        let k: usize = toks[2].parse().unwrap();
        let mut lines: Vec<String> = Vec::new();
        gen::run(k, &toks[3..], &mut lines);
        writeln!(out, "case {}", toks[1]).unwrap();
        for l in lines {
            writeln!(out, "{l}").unwrap();
        }
        writeln!(out, "--").unwrap();
        out.flush().unwrap();
    }
}

//! Leaf types, input-value construction from a token stream (`Build`) and the
//! structural observation of returned values (`Obs`) for the C17 harness.
//! Nothing here knows anything about unimock.

use std::task::Poll;

/// owned, cloneable leaf
#[derive(Clone, Debug, PartialEq, Eq)]
pub struct C(pub u32);
/// argument for methods whose result borrows from a parameter
pub static PARAM: C = C(0);
/// a cloneable leaf whose TYPE carries a lifetime parameter (behind a reference in return types: `&W<'_>`); it prints like C
#[derive(Clone, Debug, PartialEq, Eq)]
pub struct W<'a>(pub u32, pub std::marker::PhantomData<&'a ()>);
/// owned leaf that is NOT Clone
#[derive(Debug, PartialEq, Eq)]
pub struct N(pub u32);

/// owned data lent out as `&str` / `&[C]`
pub type Str = String;
pub type Sl = Vec<C>;

// ---------------------------------------------------------------- tokens
#[derive(Clone)]
pub struct Toks<'a> {
    pub t: &'a [String],
    pub pos: usize,
}

impl<'a> Toks<'a> {
    pub fn next(&mut self) -> &'a str {
        let s = &self.t[self.pos];
        self.pos += 1;
        s
    }
    pub fn num(&mut self) -> u32 {
        self.next().parse().expect("number token")
    }
}

/// Build an input value (what is passed to `returns`) from prefix tokens:
/// leaf ids are numbers, `S`/`N` Some/None, `O`/`E` Ok/Err, `R`/`P` Ready/Pending,
/// `V<n>` a Vec (or slice data, or nothing for tuples: their arity is static).
pub trait Build: Sized {
    fn build(t: &mut Toks) -> Self;
}

impl Build for C {
    fn build(t: &mut Toks) -> Self {
        C(t.num())
    }
}
impl Build for N {
    fn build(t: &mut Toks) -> Self {
        N(t.num())
    }
}
impl Build for W<'static> {
    fn build(t: &mut Toks) -> Self {
        W(t.num(), std::marker::PhantomData)
    }
}
impl Build for String {
    fn build(t: &mut Toks) -> Self {
        format!("s{}", t.num())
    }
}
impl<T: Build> Build for Vec<T> {
    fn build(t: &mut Toks) -> Self {
        let tok = t.next();
        assert!(tok.starts_with('V'), "expected V<n>, got {tok}");
        let n: usize = tok[1..].parse().unwrap();
        (0..n).map(|_| T::build(t)).collect()
    }
}
impl<T: Build> Build for Option<T> {
    fn build(t: &mut Toks) -> Self {
        match t.next() {
            "S" => Some(T::build(t)),
            "N" => None,
            o => panic!("expected S|N, got {o}"),
        }
    }
}
impl<T: Build, E: Build> Build for Result<T, E> {
    fn build(t: &mut Toks) -> Self {
        match t.next() {
            "O" => Ok(T::build(t)),
            "E" => Err(E::build(t)),
            o => panic!("expected O|E, got {o}"),
        }
    }
}
impl<T: Build> Build for Poll<T> {
    fn build(t: &mut Toks) -> Self {
        match t.next() {
            "R" => Poll::Ready(T::build(t)),
            "P" => Poll::Pending,
            o => panic!("expected R|P, got {o}"),
        }
    }
}
impl<T: Build> Build for &'static T {
    fn build(t: &mut Toks) -> Self {
        Box::leak(Box::new(T::build(t)))
    }
}
impl Build for &'static str {
    fn build(t: &mut Toks) -> Self {
        Box::leak(String::build(t).into_boxed_str())
    }
}
impl Build for &'static [C] {
    fn build(t: &mut Toks) -> Self {
        Box::leak(Vec::<C>::build(t).into_boxed_slice())
    }
}
impl Build for () {
    fn build(_: &mut Toks) -> Self {}
}
macro_rules! build_tuple {
    ($($t:ident),+) => {
        impl<$($t: Build),+> Build for ($($t,)+) {
            fn build(t: &mut Toks) -> Self {
                ($($t::build(t),)+)
            }
        }
    };
}
build_tuple!(A0);
build_tuple!(A0, A1);
build_tuple!(A0, A1, A2);
build_tuple!(A0, A1, A2, A3);
build_tuple!(A0, A1, A2, A3, A4);

// ---------------------------------------------------------------- observation
/// What the caller can see of a returned value: its structure as text (references are
/// written with a leading `&`) and the addresses of everything reached through a reference.
pub struct Seen {
    pub text: String,
    pub addrs: Vec<usize>,
}

pub trait Data {
    fn text(&self, s: &mut String);
    fn addr(&self) -> usize;
}
impl Data for C {
    fn text(&self, s: &mut String) {
        s.push_str(&format!("C({})", self.0));
    }
    fn addr(&self) -> usize {
        self as *const C as usize
    }
}
impl Data for W<'_> {
    fn text(&self, s: &mut String) {
        s.push_str(&format!("C({})", self.0));
    }
    fn addr(&self) -> usize {
        self as *const W as usize
    }
}
impl Data for N {
    fn text(&self, s: &mut String) {
        s.push_str(&format!("N({})", self.0));
    }
    fn addr(&self) -> usize {
        self as *const N as usize
    }
}
impl Data for str {
    fn text(&self, s: &mut String) {
        s.push_str(&format!("{:?}", self));
    }
    fn addr(&self) -> usize {
        self.as_ptr() as usize
    }
}
impl Data for [C] {
    fn text(&self, s: &mut String) {
        s.push('[');
        for (i, c) in self.iter().enumerate() {
            if i > 0 {
                s.push_str(", ");
            }
            c.text(s);
        }
        s.push(']');
    }
    fn addr(&self) -> usize {
        self.as_ptr() as usize
    }
}

pub trait Obs {
    fn obs(&self, seen: &mut Seen);
}
impl Obs for C {
    fn obs(&self, seen: &mut Seen) {
        self.text(&mut seen.text)
    }
}
impl Obs for N {
    fn obs(&self, seen: &mut Seen) {
        self.text(&mut seen.text)
    }
}
impl Obs for W<'_> {
    fn obs(&self, seen: &mut Seen) {
        self.text(&mut seen.text)
    }
}
impl<T: Data + ?Sized> Obs for &T {
    fn obs(&self, seen: &mut Seen) {
        seen.text.push('&');
        (**self).text(&mut seen.text);
        seen.addrs.push((**self).addr());
    }
}
impl<T: Obs> Obs for Option<T> {
    fn obs(&self, seen: &mut Seen) {
        match self {
            Some(x) => {
                seen.text.push_str("Some(");
                x.obs(seen);
                seen.text.push(')');
            }
            None => seen.text.push_str("None"),
        }
    }
}
impl<T: Obs, E: Obs> Obs for Result<T, E> {
    fn obs(&self, seen: &mut Seen) {
        match self {
            Ok(x) => {
                seen.text.push_str("Ok(");
                x.obs(seen);
                seen.text.push(')');
            }
            Err(x) => {
                seen.text.push_str("Err(");
                x.obs(seen);
                seen.text.push(')');
            }
        }
    }
}
impl<T: Obs> Obs for Poll<T> {
    fn obs(&self, seen: &mut Seen) {
        match self {
            Poll::Ready(x) => {
                seen.text.push_str("Ready(");
                x.obs(seen);
                seen.text.push(')');
            }
            Poll::Pending => seen.text.push_str("Pending"),
        }
    }
}
impl<T: Obs> Obs for Vec<T> {
    fn obs(&self, seen: &mut Seen) {
        seen.text.push('[');
        for (i, x) in self.iter().enumerate() {
            if i > 0 {
                seen.text.push_str(", ");
            }
            x.obs(seen);
        }
        seen.text.push(']');
    }
}
impl Obs for () {
    fn obs(&self, seen: &mut Seen) {
        seen.text.push_str("()");
    }
}
macro_rules! obs_tuple {
    ($(($t:ident, $i:tt)),+) => {
        impl<$($t: Obs),+> Obs for ($($t,)+) {
            fn obs(&self, seen: &mut Seen) {
                seen.text.push('(');
                $( if $i > 0 { seen.text.push_str(", "); } self.$i.obs(seen); )+
                seen.text.push(')');
            }
        }
    };
}
obs_tuple!((A0, 0));
obs_tuple!((A0, 0), (A1, 1));
obs_tuple!((A0, 0), (A1, 1), (A2, 2));
obs_tuple!((A0, 0), (A1, 1), (A2, 2), (A3, 3));
obs_tuple!((A0, 0), (A1, 1), (A2, 2), (A3, 3), (A4, 4));

pub fn see<T: Obs>(v: &T) -> Seen {
    let mut s = Seen { text: String::new(), addrs: Vec::new() };
    v.obs(&mut s);
    s
}

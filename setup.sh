#!/bin/sh
# Build the framework from files on disk only (offline).
set -e
cd "$(dirname "$0")"
export CARGO_NET_OFFLINE=true
( cd coq && coq_makefile -f _CoqProject -o Makefile >/dev/null && timeout 3000 make -j16 >/dev/null )
python3 - <<'PY'
import sys
sys.path.insert(0, '.')
from vlib import common as C
for name, feats in [("core", None)]:
    print("built", C.build_harness(name, feats))
PY
echo setup done

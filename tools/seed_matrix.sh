#!/bin/bash
# seed_matrix.sh: every seeded change against the check of its own property (and extra checks given as "<seed>:<check>")
# Sequential: patches are applied to the repository under test and reverted after each run.
cd "$(dirname "$0")/.." || exit 2
out=${1:-/tmp/seed_matrix.txt}
: > "$out"
for d in seeded/*/; do
  n=$(basename "$d"); p=${n%-*}
  tools/seed_eval.sh "$n" "$p" >> "$out" 2>&1
done
cat "$out"

#!/bin/bash
# seed_eval.sh <seed-name> <check-id>...: apply the seeded change to /repo, run the checks, undo it.
# Evidence files are saved and restored: committed evidence must come from the unchanged tree.
name="$1"; shift
cd "$(dirname "$0")/.." || exit 2
V=$PWD
bak=$(mktemp -d)
cp -r evidence "$bak/"
git -C ${VERIF_REPO:-/repo} apply $V/seeded/$name/patch.diff || { echo "$name: patch does not apply"; exit 2; }
for c in "$@"; do
  out=$(./check $c 2>&1); rc=$?
  echo "$name vs $c: rc=$rc $(echo "$out" | grep -E 'VIOLATION|agree|KNOWN' | tail -1)"
done
git -C ${VERIF_REPO:-/repo} checkout -- .
rm -rf evidence && mv "$bak/evidence" evidence && rmdir "$bak"

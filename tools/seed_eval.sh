#!/bin/bash
# seed_eval.sh <seed-name> <check-id>...: apply the seeded change to /repo, run the checks, undo it.
# Evidence files are saved and restored: committed evidence must come from the unchanged tree.
name="$1"; shift
cd "$(dirname "$0")/.." || exit 2
V=$PWD
bak=$(mktemp -d)
cp -r evidence "$bak/"
git -C ${VERIF_REPO:-/repo} apply $V/seeded/$name/patch.diff || { echo "$name: patch does not apply"; exit 2; }
for c in "$@"; do
  out=$(./check $c 2>&1); rc=$?
  echo "$name vs $c: rc=$rc $(echo "$out" | grep -E 'VIOLATION|agree|KNOWN' | tail -1)"
  # keep the replay of this seed (the input on which the change showed): candidates for the regression corpus
  rp=$(echo "$out" | grep -oE 'replay=[^ ]+' | tail -1 | cut -d= -f2)
  if [ -n "$SEED_REPLAY_DIR" ] && [ -n "$rp" ] && [ -f "$rp" ]; then cp "$rp" "$SEED_REPLAY_DIR/$name.$c.json"; fi
done
git -C ${VERIF_REPO:-/repo} checkout -- .
rm -rf evidence && mv "$bak/evidence" evidence && rmdir "$bak"

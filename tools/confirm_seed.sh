#!/bin/bash
# confirm_seed.sh <out-dir-with-patch.diff,demo.rs,meta.json> <seed-name>
# Confirms in a scratch worktree that the change compiles, the pinned suite still
# passes with it, and the demonstration fails with it and passes without it.
# On success copies the seed to /verif/seeded/<seed-name>/ with a "confirmed" record.
set -u
SRC="$1"; NAME="$2"
WT=/tmp/seedcheck
export CARGO_NET_OFFLINE=true
if [ ! -d "$WT" ]; then
  git -C /repo worktree add -q --detach "$WT" HEAD || exit 2
  cp /repo/Cargo.lock "$WT/"
fi
cd "$WT" && git checkout -q -- . && git clean -fdq -e target -e Cargo.lock && git checkout -q --detach "$(git -C /repo rev-parse HEAD)"
LOG=$(mktemp)
ok=1
git apply "$SRC/patch.diff" || { echo "$NAME: patch does not apply"; exit 1; }
cargo test --workspace --offline >"$LOG" 2>&1
suite_pass=$(grep -E "^test result: ok" "$LOG" | sed -E 's/.* ([0-9]+) passed.*/\1/' | paste -sd+ | bc)
suite_fail=$(grep -cE "^test result: FAILED|^error" "$LOG")
cp "$SRC/demo.rs" tests/seed_demo.rs
cargo test --offline --test seed_demo >"$LOG.demo1" 2>&1; demo_with=$?
git checkout -q -- src unimock_macros
cargo test --offline --test seed_demo >"$LOG.demo0" 2>&1; demo_without=$?
rm -f tests/seed_demo.rs
echo "$NAME: suite_pass=$suite_pass suite_fail=$suite_fail demo_with_change_rc=$demo_with demo_without_change_rc=$demo_without"
if [ "$suite_pass" = "127" ] && [ "$suite_fail" = "0" ] && [ "$demo_with" != "0" ] && [ "$demo_without" = "0" ]; then
  mkdir -p /verif/seeded/$NAME
  cp "$SRC/patch.diff" "$SRC/demo.rs" /verif/seeded/$NAME/
  python3 - "$SRC/meta.json" "/verif/seeded/$NAME/meta.json" "$suite_pass" <<'PY'
import json, sys
m = json.load(open(sys.argv[1]))
m["confirmed"] = {"by": "tools/confirm_seed.sh in scratch worktree /tmp/seedcheck",
                  "suite": f"cargo test --workspace --offline with the change: {sys.argv[3]} passed, 0 failed",
                  "demo_with_change": "fails", "demo_without_change": "passes"}
json.dump(m, open(sys.argv[2], "w"), indent=1)
PY
  echo "$NAME: CONFIRMED"
else
  echo "$NAME: NOT CONFIRMED (see $LOG*)"
fi

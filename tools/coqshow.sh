#!/bin/bash
# coqshow.sh <file.v> <line>: print the goals just before <line> (debug helper)
f="$1"; n="$2"
head -$((n-1)) "$f" > /tmp/_dbg.v
echo "Show. Abort." >> /tmp/_dbg.v
cd /verif/coq && coqc -Q . Unimock /tmp/_dbg.v 2>&1 | tail -${3:-45}
